"""Shared extraction of the cookie writer (legal set, translator table, _quote shape) for C13/C16."""
from __future__ import annotations

import ast
from dataclasses import dataclass
from typing import Dict, List, Optional, Set, Tuple

from .. import rx
from ..collect import run_paths
from ..common import construct, where
from ..flow import show
from ..fold import Folder, NotConst
from ..loader import AnalysisError, FuncInfo, Program
from ..report import Report, Undecided

DS = "baize.datastructures"


@dataclass
class CookieWriter:
    legal: str  # chars for which the fast (unquoted) path is taken: L(is_legal) = legal+
    translator: Dict[int, str]
    quote_fn: FuncInfo
    legal_name: str
    translator_name: str
    translator_loc: str
    legal_loc: str


def extract_writer(p: Program, rep: Report, rule: str) -> CookieWriter:
    F = Folder(p)
    mod = p.module(DS)
    cookie = p.cls(f"{DS}:Cookie")
    quote = p.find_method(cookie, "_quote")
    if quote is None:
        raise AnalysisError("Cookie._quote vanished")
    rep.analysed(quote.fq)
    paths, col, it = run_paths(p, quote, cookie)
    rep.cfg_paths += len(paths)
    rets = [pa for pa in paths if pa.exit == "return"]
    fast = [pa for pa in rets if pa.value == ("param", "value")]
    slow = [pa for pa in rets if pa.value != ("param", "value")]
    if len(fast) != 1 or len(slow) != 1:
        raise Undecided(f"{rule}: Cookie._quote no longer has exactly one unquoted and one quoted return path")
    # fast path guard: <legal predicate>(value) truthy
    pos = [f for f, t in fast[0].facts if t]
    if len(pos) != 1 or pos[0][0] != "call" or pos[0][2] != (("param", "value"),) or pos[0][1][0] != "global":
        raise Undecided(f"{rule}: unrecognised guard of the unquoted path: {fast[0].fact_text()}")
    pred_name = pos[0][1][1].split(":")[-1]
    if pred_name not in mod.constants:
        raise Undecided(f"{rule}: guard predicate {pred_name} is not a module constant")
    pe = mod.constants[pred_name]
    if not (isinstance(pe, ast.Attribute) and pe.attr == "fullmatch" and isinstance(pe.value, ast.Call) and p.resolve_dotted(mod, pe.value.func) == ("ext", "re.compile") and len(pe.value.args) == 1):
        if isinstance(pe, ast.Attribute) and pe.attr in ("match", "search"):
            rep.violation(rule, construct(f"{DS}:{pred_name}", text=ast.unparse(pe)[-40:]), f"{mod.relpath}:{pe.lineno}",
                          f"the unquoted path is guarded by .{pe.attr}() instead of .fullmatch(): a value with a legal prefix/substring is emitted raw")
            raise Undecided(f"{rule}: cannot continue the table check with a non-fullmatch guard")
        raise Undecided(f"{rule}: guard predicate {pred_name} is not re.compile(<const>).fullmatch")
    try:
        pattern = F.fold(mod, pe.value.args[0])
    except NotConst as e:
        raise Undecided(f"{rule}: legal-character pattern is not a foldable constant ({e})")
    if not isinstance(pattern, str):
        raise Undecided(f"{rule}: legal-character pattern is not a str")
    # decide the accepted character set exactly: c is legal  <=>  the one-char string c is in L(pattern)
    try:
        r = rx.Regex(pattern)
        al = rx.alphabet_for([r])
        d = rx.compile_dfa(r, al)
        legal_chars = [c for c in al if d.accepts([c])]
        # L == legal+ ?
        ref = rx.Regex("[" + "".join("\\x%02x" % c if c < 256 else "\\u%04x" % c for c in legal_chars) + "]+") if legal_chars else None
        if ref is None:
            raise Undecided(f"{rule}: legal pattern accepts no single character")
        d2 = rx.compile_dfa(ref, al)
        w1, w2 = rx.difference_witness(d, d2), rx.difference_witness(d2, d)
        if w1 is not None or w2 is not None:
            raise Undecided(f"{rule}: legal pattern {pattern!r} is not of the form [set]+ (witness {rx.show(w1 or w2)})")
        if d.accepts_empty():
            raise Undecided(f"{rule}: legal pattern accepts the empty string")
    except rx.Unsupported as e:
        raise Undecided(f"{rule}: {e}")
    legal = "".join(chr(c) for c in legal_chars)
    # slow path: '"' + value.translate(<table>) + '"'
    v = slow[0].value
    ok = (v[0] == "binop" and v[1] == "Add" and v[3] == ("const", '"') and v[2][0] == "binop" and v[2][1] == "Add" and v[2][2] == ("const", '"')
          and v[2][3][0] == "call" and v[2][3][1] == ("attr", ("param", "value"), "translate") and len(v[2][3][2]) == 1 and v[2][3][2][0][0] == "global")
    if not ok:
        raise Undecided(f"{rule}: unrecognised quoted path {show(v)}")
    tname = v[2][3][2][0][1].split(":")[-1]
    try:
        table = F.module_const(DS, tname)
    except NotConst as e:
        raise Undecided(f"{rule}: translator table is not a foldable constant ({e})")
    if not isinstance(table, dict) or not all(isinstance(k, int) and isinstance(x, str) for k, x in table.items()):
        raise Undecided(f"{rule}: translator table is not a dict[int, str]")
    legal_name = "_cookie_legal_chars" if "_cookie_legal_chars" in mod.constants else pred_name
    return CookieWriter(legal, table, quote, legal_name, tname,
                        f"{mod.relpath}:{mod.constants[tname].lineno}", f"{mod.relpath}:{mod.constants[legal_name].lineno}")


def emitted(w: CookieWriter, c: int) -> str:
    return w.translator.get(c, chr(c))
