"""C13 - response headers cannot be split or smuggled."""
from __future__ import annotations

import ast
from typing import List, Set

from ..collect import callee_is, inline_except, run_paths
from ..common import calls_in, sole_defs, construct, parents, where, with_helpers
from ..flow import strparts, show
from ..fold import Folder, NotConst
from ..loader import AnalysisError, ClassInfo, FuncInfo, Program, walk_shallow
from ..report import Report
from .cookie_common import DS, cookie_bytes_rule, emitted, extract_writer

CTL = ["\n", "\r", "\0"]


def run(p: Program, rep: Report, tier: str) -> None:
    rep.explanation = (
        "R13.1 who-may-write + dominance: the only stores into the header mapping's backing dict are in "
        "MutableHeaders.__setitem__, and on every path to that store both key and value have passed the "
        "CR/LF/NUL membership tests (branch facts of the path), the stored key is key.lower(); append goes "
        "through item assignment; update/setdefault/pop are the inherited MutableMapping mixins. R13.2 exhaustive "
        "over code points 0-255 on the folded cookie tables: no emitted chunk contains a raw ';' CR LF NUL, a "
        "quote or backslash only appears as an escape pair, so name/value cannot close the quoted string or "
        "start an attribute; name and value both pass _quote. R13.3 provenance of the Location header through "
        "iri_to_uri = quote(iri, safe=S), S folded and disjoint from CR LF NUL SP. R13.4 list_headers reads only "
        "self.headers.items() and self.cookies."
    )
    rep.assume("typing.MutableMapping mixin methods (update, setdefault, pop, popitem, clear) route through __setitem__/__delitem__ (stdlib contract)")
    rep.assume("urllib.parse.quote leaves only unreserved characters and those in `safe` unencoded (stdlib contract)")
    F = Folder(p)
    mh = p.cls(f"{DS}:MutableHeaders")
    hd = p.cls(f"{DS}:Headers")

    # ------------------------------------------------------------------ R13.1
    backing: Set[str] = set()
    hinit = hd.methods.get("__init__")
    if hinit is None:
        raise AnalysisError("Headers.__init__ vanished")
    for n in ast.walk(hinit.node):
        if isinstance(n, ast.Assign) and isinstance(n.targets[0], ast.Attribute) and isinstance(n.targets[0].value, ast.Name) and n.targets[0].value.id == "self":
            backing.add(n.targets[0].attr)
    if not backing:
        raise AnalysisError("Headers.__init__ assigns no backing store")
    family = [mh] + p.subclasses(mh)
    writers: List[str] = []
    MUTATORS = {"update", "setdefault", "__setitem__", "pop", "popitem", "clear", "__delitem__", "__ior__"}
    for ci in family:
        for m in ci.methods.values():
            rep.analysed(m.fq)
            for n in walk_shallow(m.node):
                tgt = None
                if isinstance(n, (ast.Assign, ast.AugAssign, ast.AnnAssign)):
                    tgts = n.targets if isinstance(n, ast.Assign) else [n.target]
                    for t in tgts:
                        for sub in ast.walk(t):
                            if isinstance(sub, ast.Subscript) and _is_backing(sub.value, backing):
                                tgt = sub
                            if isinstance(sub, ast.Attribute) and isinstance(sub.ctx, ast.Store) and _is_backing(sub, backing):
                                tgt = sub
                elif isinstance(n, ast.Call) and isinstance(n.func, ast.Attribute) and n.func.attr in MUTATORS and _is_backing(n.func.value, backing):
                    if n.func.attr in ("pop", "popitem", "clear", "__delitem__"):
                        continue  # removal cannot add a line
                    tgt = n
                if tgt is None:
                    continue
                if m.name == "__setitem__":
                    writers.append(m.fq)
                    continue
                # a private helper whose only caller is __setitem__ (an extracted store, the undecorated body of a checking
                # decorator) is part of __setitem__: the dominance rule below sees it inlined
                try:
                    from ..common import owner_of as _own13
                    own13 = _own13(p, m)
                except Exception:
                    own13 = m
                if own13 is not m and own13.name == "__setitem__" and own13.cls in family:
                    writers.append(own13.fq)
                    continue
                rep.violation("R13.1", construct(m, n), where(m, n),
                              f"{m.fq} writes the header store directly, bypassing the control-character check of __setitem__")
    # nobody outside the Headers family touches the backing dict of a headers object
    fam_all = {hd} | set(p.subclasses(hd))
    for fn in p.all_functions():
        owner = p.enclosing_class(fn)
        if owner in fam_all:
            continue
        for n in walk_shallow(fn.node):
            if isinstance(n, ast.Attribute) and n.attr in backing and not (isinstance(n.value, ast.Name) and n.value.id == "self"):
                base = ast.unparse(n.value)
                if "headers" in base.lower():
                    rep.violation("R13.1", construct(fn, n), where(fn, n), "code outside the header mapping reaches into its backing dict")
    if "baize.datastructures:MutableHeaders.__setitem__" not in writers:
        rep.undecide("R13.1", "MutableHeaders.__setitem__ no longer stores into the backing dict")
    else:
        rep.ok("R13.1", f"the only writer of the backing dict in {len(family)} class(es) is __setitem__")
    setitem = mh.methods.get("__setitem__")
    if setitem is None:
        raise AnalysisError("MutableHeaders.__setitem__ vanished")
    paths, col, it = run_paths(p, setitem, mh)
    rep.cfg_paths += len(paths)
    n_store_paths = 0
    for pa in paths:
        stores = [e for e in pa.events if e.kind == "store" and _val_is_backing(e.a[1], backing)]
        if not stores:
            if pa.exit == "return":
                rep.violation("R13.1", construct(setitem, text="return without store"), where(setitem), "__setitem__ returns normally without storing (silently drops the header)")
            continue
        n_store_paths += 1
        for operand in ("key", "value"):
            for ch in CTL:
                fact = (("cmp", "In", ("const", ch), ("param", operand)), False)
                if fact in pa.facts:
                    rep.ok("R13.1", f"store dominated by test {ch!r} not in {operand}")
                else:
                    node, f = col.nodes[stores[0].tag]
                    rep.violation("R13.1", construct(setitem, text=f"store without check {ch!r} in {operand}"), where(setitem, node),
                                  f"a path reaches the header store without having rejected {ch!r} in the {operand}",
                                  path_facts=pa.fact_text())
        k = stores[0].a[2]
        if k == ("call", ("attr", ("param", "key"), "lower"), (), (), k[4] if len(k) > 4 else 0):
            rep.ok("R13.1", "stored key is key.lower()")
        else:
            node, f = col.nodes[stores[0].tag]
            rep.violation("R13.1", construct(setitem, text=f"stored key {show(k)}"), where(setitem, node), "header name is not stored lower-cased (duplicate names differing in case become two lines)")
        if stores[0].b != ("param", "value"):
            node, f = col.nodes[stores[0].tag]
            rep.violation("R13.1", construct(setitem, text=f"stored value {show(stores[0].b)}"), where(setitem, node), "the value stored is not the checked value")
    for pa in paths:
        if pa.exit == "raise" and pa.value not in ("ValueError", "TypeError"):
            rep.observe(f"__setitem__ rejects with {pa.value}")
    if n_store_paths == 0:
        rep.undecide("R13.1", "no path of __setitem__ reaches a store")
    # append must go through item assignment only (covered by the who-may-write scan); make it explicit
    app = mh.methods.get("append")
    if app is not None:
        direct = [n for n in walk_shallow(app.node) if isinstance(n, ast.Attribute) and n.attr in backing]
        if direct:
            rep.violation("R13.1", construct(app, direct[0]), where(app, direct[0]), "append() touches the backing dict directly")
        else:
            rep.ok("R13.1", "append() writes only through self[...] = ...")
    for name in ("update", "setdefault"):
        for ci in family:
            if name in ci.methods:
                rep.observe(f"{ci.fq}.{name} overrides the MutableMapping mixin; its stores were scanned by the who-may-write rule")
    rep.observe("Headers.__init__ (reached by MutableHeaders(headers) in BaseResponse.__init__) stores constructor-supplied pairs unchecked; the statement quantifies over the mutating operations only - recorded, not a violation")
    rep.require_instances("R13.1", 9)

    # ------------------------------------------------------------------ R13.2
    w = extract_writer(p, rep, "R13.2")
    FORBIDDEN_RAW = {";", "\r", "\n", "\0", '"', "\\"}
    for ch in w.legal:
        if ch in FORBIDDEN_RAW or ch in ",= \t" or ord(ch) < 0x21 or ord(ch) > 0x7E:
            rep.violation("R13.2", construct(f"{DS}:{w.legal_name}", text=f"legal char {ch!r}"), w.legal_loc,
                          f"{ch!r} is in the unquoted-cookie character set: a name/value containing it is emitted raw and can end the pair or start an attribute")
    rep.ok("R13.2", f"unquoted path: {len(w.legal)} legal characters, none of ; , = SP quote backslash controls")
    bad = 0
    for c in range(256):
        e = emitted(w, c)
        okc = True
        why = ""
        if len(e) == 1:
            if e in FORBIDDEN_RAW or ord(e) < 0x20 or ord(e) == 0x7F or ord(e) > 0x7E:
                okc, why = False, f"code point {c} ({chr(c)!r}) is emitted raw inside the quoted string"
        elif e == '\\"' or e == "\\\\":
            if chr(c) not in '"\\':
                okc, why = False, f"code point {c} maps to {e!r}"
        elif len(e) == 4 and e[0] == "\\" and e[1:].isdigit() and all(d in "01234567" for d in e[1:]):
            pass
        else:
            okc, why = False, f"code point {c} maps to {e!r}, which is not a single safe char, an escape pair or a 3-digit octal escape"
        if any(x in e for x in (";", "\r", "\n", "\0")):
            okc, why = False, f"code point {c} emits {e!r} containing a raw separator/control"
        if okc:
            rep.obligations += 1
            rep.discharged += 1
        else:
            bad += 1
            rep.violation("R13.2", construct(f"{DS}:{w.translator_name}", text=f"emit({c})"), w.translator_loc, why)
    rep.rule_instances.setdefault("R13.2", {"found": 0, "min": 0})["found"] += 256 - bad
    rep.samples.append({"rule": "R13.2", "obligation": "emit(c) safe for c in 0..255", "detail": {str(c): emitted(w, c) for c in (0, 10, 13, 32, 34, 44, 59, 61, 92, 127, 255)}})
    # both name and value pass _quote in __str__
    cookie = p.cls(f"{DS}:Cookie")
    s = cookie.methods.get("__str__")
    if s is None:
        raise AnalysisError("Cookie.__str__ vanished")
    rep.analysed(s.fq)
    paths, col, it = run_paths(p, s, cookie, inline=inline_except("_quote"))
    rep.cfg_paths += len(paths)
    first_ok = 0
    for pa in paths:
        # the pieces of the cookie text in order: the elements the list starts with, then what is appended
        apps = [e for e in pa.events if e.kind == "call" and e.a[0] == "attr" and e.a[2] == "append"]
        pieces = []
        if apps and apps[0].a[1][0] == "list":
            pieces += list(apps[0].a[1][1])
        elif not apps and pa.exit == "return" and pa.value[0] == "call" and pa.value[2] and pa.value[2][0][0] == "list":
            pieces += list(pa.value[2][0][1])
        pieces += [e.b[0] for e in apps if e.b]
        if not pieces:
            continue
        v = pieces[0]
        sp = strparts(v)
        if sp is not None and len(sp) == 3:
            v = ("fstr", tuple(sp))
        def q(x, attr):
            return x[0] == "call" and callee_is(x[1], "Cookie._quote", "_quote") and x[2] == (("attr", ("param", "self"), attr),)
        if v[0] == "fstr" and len(v[1]) == 3 and q(v[1][0], "name") and v[1][1] == ("const", "=") and q(v[1][2], "value"):
            first_ok += 1
        else:
            rep.violation("R13.2", construct(s, text=f"pair {show(v)}"), where(s), "the name=value pair is not built from _quote(name) and _quote(value)")
            break
    if first_ok:
        rep.ok("R13.2", f"name and value both pass _quote on all {first_ok} paths of Cookie.__str__")
    rep.require_instances("R13.2", 250)

    # ------------------------------------------------------------------ R13.3
    resp_mod = p.module("baize.responses")
    iri = p.function("baize.responses", "iri_to_uri")
    if iri is None:
        raise AnalysisError("iri_to_uri vanished")
    rep.analysed(iri.fq)
    rets = [n for n in walk_shallow(iri.node) if isinstance(n, ast.Return)]
    okq = False
    for r in rets:
        c = r.value
        if isinstance(c, ast.Call) and p.resolve_call(iri, c) == ("ext", "urllib.parse.quote") and c.args and isinstance(c.args[0], ast.Name) and c.args[0].id == iri.params[0]:
            safe = next((k.value for k in c.keywords if k.arg == "safe"), c.args[1] if len(c.args) > 1 else None)
            try:
                sv = F.fold(iri.module, safe) if safe is not None else "/"
            except NotConst:
                rep.undecide("R13.3", "safe= is not a constant")
                continue
            badc = [ch for ch in sv if ch in "\r\n\0 " or ord(ch) > 0x7E or ord(ch) < 0x21]
            if badc:
                rep.violation("R13.3", construct(iri, text=f"quote(safe contains {badc!r})"), where(iri, c), f"quote() is told to leave {badc!r} unencoded: a redirect target can carry it into the Location header")
            else:
                okq = True
                rep.ok("R13.3", f"iri_to_uri = quote(iri, safe={sv!r}); safe set free of CR LF NUL SP and non-ASCII")
        else:
            # not quote(): returned as it came (or after a whole-string operation) = nothing is escaped: violation. Rebuilt character by
            # character / byte by byte (a join over an encoding of the text through a table) = an escaper of its own, which this rule
            # does not evaluate: UNDECIDED
            pname = iri.params[0] if iri.params else "iri"
            rv = r.value
            per_unit = any(isinstance(x, (ast.GeneratorExp, ast.ListComp)) for x in ast.walk(rv)) or any(isinstance(x, ast.Call) and isinstance(x.func, ast.Attribute) and x.func.attr in ("translate", "sub") for x in ast.walk(rv))
            if per_unit and any(isinstance(x, ast.Name) and x.id == pname for x in ast.walk(rv)):
                rep.undecide("R13.3", f"iri_to_uri escapes with an implementation of its own ({' '.join(ast.unparse(rv).split())[:60]}): which characters it leaves unescaped is not evaluated")
            else:
                rep.violation("R13.3", construct(iri, r), where(iri, r), "iri_to_uri does not return urllib.parse.quote(iri, ...)")
    if not rets:
        rep.undecide("R13.3", "iri_to_uri has no return")
    redirect_location_provenance(p, rep, "R13.3")
    # ... and nothing else in the package writes a Location header: a dict literal {"location": ...} handed to a response
    # constructor goes through the UNCHECKED constructor path of MutableHeaders
    n_loc = 0
    for f_ in p.all_functions():
        for n in ast.walk(f_.node):
            hit = None
            if isinstance(n, ast.Dict):
                for k, v in zip(n.keys, n.values):
                    if isinstance(k, ast.Constant) and isinstance(k.value, (str, bytes)) and (k.value.lower() if isinstance(k.value, str) else k.value.lower().decode("latin-1")) == "location":
                        hit = v
            elif isinstance(n, ast.Assign) and len(n.targets) == 1 and isinstance(n.targets[0], ast.Subscript) and isinstance(n.targets[0].slice, ast.Constant) \
                    and isinstance(n.targets[0].slice.value, str) and n.targets[0].slice.value.lower() == "location":
                hit = n.value
            if hit is None:
                continue
            n_loc += 1
            def _esc(e_: ast.AST) -> bool:
                return isinstance(e_, ast.Call) and isinstance(p.resolve_call(f_, e_), FuncInfo) and p.resolve_call(f_, e_).name == "iri_to_uri"
            escaped = _esc(hit)
            if not escaped and isinstance(hit, ast.Name) and hit.id not in f_.params:
                # a local that only ever holds iri_to_uri(...) results
                vals = sole_defs(f_, hit.id)
                escaped = bool(vals) and all(_esc(v_) for v_ in vals)
            if escaped:
                rep.ok("R13.3", f"{f_.fq}: Location = iri_to_uri(...)")
            else:
                rep.violation("R13.3", construct(f_, text=f"location <- {ast.unparse(hit)[:50]}"), where(f_, n),
                              f"{f_.fq} writes a Location header that does not pass iri_to_uri ({ast.unparse(hit)[:50]}): request-derived text (a path segment containing CR/LF, cancelled by a later '..') "
                              "reaches the header raw" + (" - and a headers= dict is not even checked by MutableHeaders.__setitem__" if isinstance(n, ast.Dict) else ""))
    rep.require_instances("R13.3", 5)

    # ------------------------------------------------------------------ R13.4
    br = p.cls("baize.responses:BaseResponse")
    lh = br.methods.get("list_headers")
    if lh is None:
        raise AnalysisError("BaseResponse.list_headers vanished")
    rep.analysed(lh.fq)
    unit = with_helpers(p, lh)
    path_verdict = _list_headers_on_paths(p, rep, br, lh)
    sources = set()
    for f_ in unit if path_verdict is None else []:
        for n in ast.walk(f_.node):
            if isinstance(n, ast.comprehension):
                sources.add(ast.unparse(n.iter))
            if isinstance(n, (ast.For, ast.AsyncFor)):
                sources.add(ast.unparse(n.iter))
            if isinstance(n, ast.Starred) and not isinstance(n.value, ast.GeneratorExp):
                sources.add(ast.unparse(n.value))
            if isinstance(n, ast.Call) and isinstance(n.func, ast.Name) and n.func.id in ("list", "tuple") and len(n.args) == 1 and not isinstance(n.args[0], ast.GeneratorExp):
                sources.add(ast.unparse(n.args[0]))
            if isinstance(n, ast.Call) and isinstance(n.func, ast.Attribute) and n.func.attr == "extend" and len(n.args) == 1 and not isinstance(n.args[0], ast.GeneratorExp):
                sources.add(ast.unparse(n.args[0]))
    allowed = {"self.headers.items()", "self.cookies"}
    # a call of a helper of the unit (generator / renderer) is not a source of its own: its body is scanned with the unit
    unit_names = {f_.name for f_ in unit}
    sources = {s_ for s_ in sources if not any(s_.startswith(pre + n_ + "(") for n_ in unit_names for pre in ("self.", "cls.", ""))}
    extra = sources - allowed
    if path_verdict is not None:
        pass  # decided on the paths (below): sources and cookie lines
    elif extra and all(("self.headers" in s_ or "self.cookies" in s_) for s_ in extra):
        # pipelines over the two legitimate sources (map / starmap / chain / a renderer object): derived from them, but the
        # per-pair transformation is not followed by this syntactic fallback
        rep.undecide("R13.4", f"list_headers builds its pairs through {sorted(extra)[0][:70]}: a pipeline over the header mapping / cookie list that the rule does not follow")
    elif extra and all(s_.endswith("()") and "." not in s_ and "(" not in s_[:-2] for s_ in extra):
        rep.undecide("R13.4", f"list_headers takes its pairs from a callable chosen at run time ({sorted(extra)[0][:40]}): not followed")
    elif extra:
        rep.violation("R13.4", construct(lh, text="sources " + ", ".join(sorted(extra))), where(lh), "list_headers emits pairs that do not come from the checked header mapping or the cookie list")
    elif sources >= allowed:
        rep.ok("R13.4", "list_headers reads exactly self.headers.items() and self.cookies")
    else:
        rep.undecide("R13.4", f"list_headers sources {sorted(sources)}")
    # cookie lines are produced by Cookie.__str__/__bytes__ only: whatever iterates self.cookies uses the element only as str(c)/bytes(c)
    okc, seen_c, unknown_c = True, 0, False
    for f_ in unit if path_verdict is None else []:
        for n in ast.walk(f_.node):
            if isinstance(n, (ast.comprehension, ast.For)) and ast.unparse(n.iter) == "self.cookies" and isinstance(n.target, ast.Name):
                cv = n.target.id
                scope_ = n if isinstance(n, ast.For) else next((q for q in parents(n) if isinstance(q, (ast.GeneratorExp, ast.ListComp))), None)
                if scope_ is None:
                    okc = False
                    continue
                for u in ast.walk(scope_):
                    if isinstance(u, ast.Name) and u.id == cv and isinstance(u.ctx, ast.Load):
                        seen_c += 1
                        par = next(iter(parents(u)), None)
                        if not (isinstance(par, ast.Call) and isinstance(par.func, ast.Name) and par.func.id in ("str", "bytes") and par.args == [u]):
                            if isinstance(par, ast.Call) and u in par.args and not (isinstance(par.func, ast.Name) and par.func.id in ("repr", "format", "getattr")):
                                unknown_c = True  # handed to a callable the rule cannot see through (a renderer picked from a table)
                            else:
                                okc = False
    if path_verdict is not None:
        pass
    elif okc and unknown_c:
        rep.undecide("R13.4", "a cookie of self.cookies is handed to a callable the rule cannot resolve (renderer chosen at run time): cannot tell whether the line is str(cookie)/bytes(cookie)")
    elif okc and seen_c:
        rep.ok("R13.4", "cookie lines are str(cookie)/bytes(cookie)")
    elif not okc:
        rep.violation("R13.4", construct(lh, text="cookie line not str(cookie)/bytes(cookie)"), where(lh), "a Set-Cookie line is produced by something other than Cookie.__str__/__bytes__ (bypasses the escaper)")
    # set_cookie appends Cookie objects only
    sc = br.methods.get("set_cookie")
    sc_paths, _, _ = run_paths(p, sc, br)
    rep.cfg_paths += len(sc_paths)
    stored_ok = stored_bad = 0
    for pa in sc_paths:
        for e in pa.events:
            if e.kind == "call" and e.a[0] == "attr" and e.a[2] in ("append", "extend", "insert") and show(e.a[1]) == "self.cookies":
                a0 = e.b[-1] if e.b else None
                if a0 is not None and a0[0] == "call" and callee_is(a0[1], "Cookie"):
                    stored_ok += 1
                else:
                    stored_bad += 1
                    nd = col_node = None
                    rep.violation("R13.4", construct(sc, text=f"stores {show(a0)[:50] if a0 else '?'}"), where(sc), "set_cookie stores something other than a Cookie object (bypasses the escaper)")
            elif e.kind == "store" and "cookies" in show(e.a):
                stored_bad += 1
                rep.violation("R13.4", construct(sc, text=f"rebinds {show(e.a)[:50]}"), where(sc), "set_cookie rebinds the cookie list")
    if stored_ok and not stored_bad:
        rep.ok("R13.4", "set_cookie appends a Cookie(...) object")
    kind_, b_, _node, cons_, msg_ = cookie_bytes_rule(p)
    if b_ is not None:
        rep.analysed(b_.fq)
    if kind_ == "ok":
        rep.ok("R13.4", msg_)
    elif kind_ == "undecided":
        rep.undecide("R13.4", msg_)
    else:
        rep.violation("R13.4", construct(b_, text=cons_), where(b_), msg_)
    rep.require_instances("R13.4", 4)


def _is_backing(e: ast.AST, backing: Set[str]) -> bool:
    return isinstance(e, ast.Attribute) and e.attr in backing and isinstance(e.value, ast.Name) and e.value.id == "self"


def _val_is_backing(v, backing: Set[str]) -> bool:
    return v[0] == "attr" and v[1] == ("param", "self") and v[2] in backing


def _derives_from(v, leaf) -> bool:
    from ..flow import contains

    return contains(v, leaf)


def redirect_location_provenance(p: Program, rep: Report, rule: str) -> None:
    """On every path of both RedirectResponse constructors the Location header is iri_to_uri(<the url argument>) written
    through the checked header mapping (C13 R13.3; reused by C05: header values are ASCII/Latin-1 text)."""
    for side in ("wsgi", "asgi"):
        rc = p.cls(f"baize.{side}.responses:RedirectResponse")
        init = p.find_method(rc, "__init__")
        rep.analysed(init.fq)
        paths, col, it = run_paths(p, init, rc)
        rep.cfg_paths += len(paths)
        found = False
        for pa in paths:
            if pa.exit != "return":
                continue
            locs = [e for e in pa.events if e.kind == "store" and e.a[0] == "sub" and e.a[2][0] == "const" and str(e.a[2][1]).lower() == "location"]
            if not locs:
                rep.violation(rule, construct(init, text="no location"), where(init), f"{side} RedirectResponse does not set the location header on a normal path")
                continue
            for e in locs:
                v = e.b
                node, f = col.nodes[e.tag]
                if e.a[1] != ("attr", ("param", "self"), "headers"):
                    rep.violation(rule, construct(init, node), where(init, node), "location is not written through the checked header mapping")
                elif v[0] == "call" and callee_is(v[1], "iri_to_uri") and len(v[2]) == 1 and _derives_from(v[2][0], ("param", "url")):
                    found = True
                    rep.ok(rule, f"{side}: location = {show(v)}")
                else:
                    rep.violation(rule, construct(init, node), where(init, node), f"{side}: redirect target reaches the Location header without iri_to_uri (got {show(v)})")
        if not found:
            rep.undecide(rule, f"{side}: no location store found")


def _list_headers_on_paths(p: Program, rep: Report, br, lh):
    """R13.4 decided on the return paths of list_headers (helpers, renderer tables and map() seen through by the engine):
    every contribution to the returned list is `self.headers.items()` itself, a comprehension over it, or a comprehension
    over `self.cookies` whose element is (set-cookie, str(cookie) | bytes(cookie)). Returns True when it reported a verdict,
    None when some contribution has a form it does not recognise (the caller then falls back to the syntactic rule)."""
    try:
        paths, _c, _i = run_paths(p, lh, br)
    except Exception:
        return None
    rets = [pa for pa in paths if pa.exit == "return"]
    if not rets:
        return None
    HDR_ITEMS = ("attr", ("attr", ("param", "self"), "headers"), "items")
    COOKIES = ("attr", ("param", "self"), "cookies")
    problems, n_hdr, n_ck = [], 0, 0
    for pa in rets:
        v = pa.value
        items = None
        if v[0] == "list":
            items = list(v[1])
        elif v[0] == "mut" and v[1][0] == "list":
            items = list(v[1][1])
        if items is None:
            return None
        contribs = []
        for it_ in items:
            if it_[0] != "star":
                return None
            contribs.append(it_[1])
        for e in pa.events:
            if e.kind == "call" and e.a[0] == "attr" and e.a[2] == "extend" and e.a[1][0] in ("list", "mut") and len(e.b) == 1:
                contribs.append(e.b[0])
            elif e.kind == "call" and e.a[0] == "attr" and e.a[2] in ("append", "insert") and e.a[1][0] in ("list", "mut"):
                return None
        if not contribs:
            return None
        for x in contribs:
            if x[0] == "call" and x[1] == HDR_ITEMS and not x[2]:
                n_hdr += 1
                continue
            if x[0] != "comp":
                return None
            src, el = x[3], x[2]
            if x[4]:
                return None  # a filtered comprehension: not this rule's idiom
            if src[0] == "call" and src[1] == HDR_ITEMS and not src[2]:
                n_hdr += 1
            elif src == COOKIES:
                n_ck += 1
                line_ok = el[0] == "tuple" and len(el[1]) == 2 and el[1][0][0] == "const" and str(el[1][0][1] if isinstance(el[1][0][1], str) else el[1][0][1].decode("latin-1")).lower() == "set-cookie" \
                    and el[1][1][0] == "call" and el[1][1][1] in (("builtin", "str"), ("builtin", "bytes")) and el[1][1][2] == (("elem", src),)
                if not line_ok:
                    problems.append(("cookie line not str(cookie)/bytes(cookie)", f"a Set-Cookie line is produced as {show(el)[:70]}, not (set-cookie, str(cookie) | bytes(cookie)): it bypasses the escaper"))
            else:
                problems.append(("sources " + show(src)[:60], f"list_headers emits pairs taken from {show(src)[:60]}, which is neither the checked header mapping nor the cookie list"))
    if problems:
        for cons_, msg_ in dict(problems).items():
            rep.violation("R13.4", construct(lh, text=cons_), where(lh), msg_)
        return True
    if not n_hdr or not n_ck:
        return None
    rep.ok("R13.4", f"list_headers reads exactly self.headers.items() and self.cookies on all {len(rets)} return paths")
    rep.ok("R13.4", "cookie lines are str(cookie)/bytes(cookie)")
    return True
