"""Rules shared by the streaming checks (C06 termination / C19 delivery / C05 emission):

  send_failures_propagate   a failing ASGI send() (the server's way to report a lost peer) is never swallowed
  closed_flag_provenance    the 'client went away' flag of the streaming responses becomes true only from a received
                            http.disconnect message
  relay_put_never_drops     an item pulled from the user's iterator is enqueued unconditionally: a timed / non-blocking put
                            whose Full is swallowed while the pull sits in the same try body loses the item

Each yields (kind, fn, node, construct text, message) with kind in ok | violation | undecided.
"""
from __future__ import annotations

import ast
import builtins
from typing import Iterator, List, Optional, Set, Tuple

from ..common import calls_in, parents
from ..loader import AnalysisError, ClassInfo, FuncInfo, Program, walk_shallow

Item = Tuple[str, FuncInfo, Optional[ast.AST], str, str]


# ----------------------------------------------------------------------------- handlers
def handler_covers(h: ast.ExceptHandler, exc: type) -> bool:
    """Can this handler catch (some instance of) `exc`?  Bare / a superclass / a subclass all can."""
    if h.type is None:
        return True
    names = [h.type] if not isinstance(h.type, ast.Tuple) else list(h.type.elts)
    for n in names:
        nm = ast.unparse(n).split(".")[-1]
        cls = getattr(builtins, nm, None)
        if isinstance(cls, type) and issubclass(cls, BaseException):
            if issubclass(exc, cls) or issubclass(cls, exc):
                return True
        elif nm in ("error", "timeout") or cls is None and nm.endswith("Error") and "socket" in ast.unparse(n):
            return True
    return False


def handler_reraises(h: ast.ExceptHandler) -> bool:
    return bool(h.body) and isinstance(h.body[-1], ast.Raise)


def swallowing_handlers(node: ast.AST, fn: FuncInfo, exc: type) -> List[ast.ExceptHandler]:
    """Handlers of try statements (inside fn) whose BODY contains `node`, that can catch `exc` and do not end in raise."""
    out = []
    child = node
    for par in parents(node):
        if isinstance(par, ast.Try) and any(child is b for b in par.body):
            for h in par.handlers:
                if handler_covers(h, exc) and not handler_reraises(h):
                    out.append(h)
        if par is fn.node:
            break
        child = par
    return out


# ----------------------------------------------------------------------------- send failures
def _send_params(fn: FuncInfo) -> Set[str]:
    """names bound to the ASGI send callable in fn or an enclosing function: parameters annotated `Send`"""
    out = set()
    f: Optional[FuncInfo] = fn
    while f is not None:
        a = f.node.args
        for x in a.posonlyargs + a.args + a.kwonlyargs:
            if x.annotation is not None and ast.unparse(x.annotation).split(".")[-1] == "Send":
                out.add(x.arg)
        f = f.parent
    return out


def _is_asgi_app(f: FuncInfo) -> bool:
    anns = [ast.unparse(x.annotation).split(".")[-1] for x in f.node.args.args if x.annotation is not None]
    return "Scope" in anns and "Receive" in anns and "Send" in anns


def send_failures_propagate(p: Program) -> List[Item]:
    out: List[Item] = []
    fns = [f for f in p.all_functions() if f.module.name.startswith("baize.asgi")]
    # functions that forward a Send parameter to a direct call of it (send_http_start / send_http_body ...)
    forwarding: Set[str] = set()
    for f in fns:
        sp = _send_params(f)
        if any(isinstance(c.func, ast.Name) and c.func.id in sp for c in calls_in(f)):
            forwarding.add(f.fq)
    changed = True
    while changed:  # ... or hand it to a function that does (send_http_body -> _send_event -> send)
        changed = False
        for f in fns:
            if f.fq in forwarding:
                continue
            sp = _send_params(f)
            for c in calls_in(f):
                if any(isinstance(a, ast.Name) and a.id in sp for a in c.args):
                    r = p.resolve_call(f, c, f.cls)
                    if isinstance(r, FuncInfo) and r.fq in forwarding and r.module.name == "baize.asgi.helper" and f.module.name == "baize.asgi.helper":
                        forwarding.add(f.fq)
                        changed = True
                        break
    n = 0
    for f in fns:
        sp = _send_params(f)
        if not sp:
            continue
        for c in calls_in(f):
            direct = isinstance(c.func, ast.Name) and c.func.id in sp
            via = None
            if not direct and any(isinstance(a, ast.Name) and a.id in sp for a in c.args):
                r = p.resolve_call(f, c, f.cls)
                if isinstance(r, FuncInfo) and r.fq in forwarding:
                    via = r
            if not direct and via is None:
                continue
            n += 1
            sw = swallowing_handlers(c, f, OSError)
            if _is_asgi_app(f):
                # the application callable itself may end the response quietly: a handler that leaves (return / break) is
                # 'the response call returns'; only one that carries on (pass / continue / log) keeps driving the producer
                sw = [h for h in sw if not (h.body and isinstance(h.body[-1], (ast.Return, ast.Break)))]
            what = "send(...)" if direct else f"{via.name}(send, ...)"
            if sw:
                h = sw[0]
                out.append(("violation", f, h, f"{what} failure swallowed by except {ast.unparse(h.type) if h.type else ''}".strip(),
                            f"{f.fq}: an exception raised by {what} is caught ({'except ' + ast.unparse(h.type) if h.type else 'bare except'}) and not re-raised. An ASGI server reports a lost peer by raising "
                            "OSError from send(); swallowing it makes the response call keep driving the producer (a streaming loop never learns that the client is gone) and emit further events after a failed one"))
            else:
                out.append(("ok", f, c, "", f"{f.fq}: a failing {what} propagates to the caller"))
    if n == 0:
        out.append(("undecided", fns[0], None, "", "no call of an ASGI send callable found in baize.asgi"))
    return out


# ----------------------------------------------------------------------------- closed flag
def closed_flag_attr(p: Program) -> Tuple[ClassInfo, FuncInfo, str]:
    cls = p.cls("baize.asgi.responses:StreamingResponse")
    call = cls.methods.get("__call__")
    if call is None:
        raise AnalysisError("asgi StreamingResponse.__call__ vanished")
    for n in walk_shallow(call.node):
        if isinstance(n, ast.While):
            t = n.test
            if isinstance(t, ast.UnaryOp) and isinstance(t.op, ast.Not) and isinstance(t.operand, ast.Attribute) and isinstance(t.operand.value, ast.Name) and t.operand.value.id == "self":
                return cls, call, t.operand.attr
    # the same test inside the __anext__ of a private iterator object the loop runs over
    # (`async for chunk in _ChunksWhileConnected(self, generator)` with `if self._response._client_closed: raise StopAsyncIteration`)
    for n in walk_shallow(call.node):
        if isinstance(n, ast.AsyncFor) and isinstance(n.iter, ast.Call) and isinstance(n.iter.func, ast.Name):
            try:
                ic = p.cls(f"{cls.module.name}:{n.iter.func.id}")
            except Exception:
                ic = None
            nx = ic.methods.get("__anext__") if ic is not None and ic.name.startswith("_") else None
            if nx is None:
                continue
            for t in ast.walk(nx.node):
                if isinstance(t, ast.If) and isinstance(t.test, ast.Attribute) and isinstance(t.test.value, ast.Attribute) and isinstance(t.test.value.value, ast.Name) and t.test.value.value.id == "self" \
                        and any(isinstance(x, ast.Raise) and "StopAsyncIteration" in ast.unparse(x) for x in t.body):
                    return cls, call, t.test.attr
    raise AnalysisError("asgi StreamingResponse.__call__: no `while not self.<flag>` streaming loop")


def closed_flag_provenance(p: Program) -> List[Item]:
    """Every store to the flag is `False`, or `<message>['type'] == 'http.disconnect'` with <message> = await receive()."""
    out: List[Item] = []
    cls, call, attr = closed_flag_attr(p)
    n = 0
    for f in p.all_functions():
        if not f.module.name.startswith("baize.asgi"):
            continue
        recv = {x.arg for x in f.node.args.args + f.node.args.kwonlyargs if x.annotation is not None and ast.unparse(x.annotation).split(".")[-1] == "Receive"}
        msg_vars = set()
        for s in ast.walk(f.node):
            if isinstance(s, ast.Assign) and len(s.targets) == 1 and isinstance(s.targets[0], ast.Name) and isinstance(s.value, ast.Await) and isinstance(s.value.value, ast.Call) \
                    and isinstance(s.value.value.func, ast.Name) and s.value.value.func.id in recv:
                msg_vars.add(s.targets[0].id)
        for s in ast.walk(f.node):
            tg = []
            if isinstance(s, ast.Assign):
                tg = [(t, s.value) for t in s.targets]
            elif isinstance(s, (ast.AnnAssign, ast.AugAssign)):
                tg = [(s.target, s.value)]
            for t, v in tg:
                if not (isinstance(t, ast.Attribute) and t.attr == attr and isinstance(t.value, ast.Name) and t.value.id == "self"):
                    continue
                n += 1
                if isinstance(v, ast.Constant) and v.value is False and not isinstance(s, ast.AugAssign):
                    out.append(("ok", f, s, "", f"{f.fq}: self.{attr} starts as False"))
                    continue
                ok = False
                if isinstance(v, ast.Compare) and len(v.ops) == 1 and isinstance(v.ops[0], ast.Eq) and not isinstance(s, ast.AugAssign):
                    sides = [v.left, v.comparators[0]]
                    lit = [x for x in sides if isinstance(x, ast.Constant) and x.value == "http.disconnect"]
                    sub = [x for x in sides if isinstance(x, ast.Subscript) and isinstance(x.value, ast.Name) and x.value.id in msg_vars
                           and isinstance(x.slice, ast.Constant) and x.slice.value == "type"]
                    ok = bool(lit and sub)
                if ok:
                    out.append(("ok", f, s, "", f"{f.fq}: self.{attr} becomes true only for a received http.disconnect message"))
                else:
                    out.append(("violation", f, s, f"self.<closed flag> = {ast.unparse(v)[:60] if v is not None else ''}",
                                f"{f.fq}: the 'client went away' flag self.{attr} is set from something other than a received message of type http.disconnect: the stream ends early "
                                "(events the producer still yields are never delivered) although the client is connected"))
    if n < 2:
        out.append(("undecided", call, None, "", f"expected an initial and a disconnect store of self.{attr}, found {n}"))
    return out


# ----------------------------------------------------------------------------- relay put
PULLS = ("next", "anext", "__next__", "__anext__")


def relay_put_never_drops(p: Program) -> List[Item]:
    out: List[Item] = []
    n = 0
    for side in ("wsgi", "asgi"):
        cls = p.cls(f"baize.{side}.responses:SendEventResponse")
        rs = cls.methods.get("render_stream")
        if rs is None:
            raise AnalysisError(f"{side} SendEventResponse.render_stream vanished")
        for push in rs.nested.values():
            for c in calls_in(push, deep=True):
                f = c.func
                if not (isinstance(f, ast.Attribute) and f.attr in ("put", "put_nowait")):
                    continue
                if c.args and isinstance(c.args[0], ast.Constant) and c.args[0].value is None:
                    continue  # the sentinel
                n += 1
                timed = f.attr == "put_nowait" or any(k.arg in ("timeout", "block") for k in c.keywords) or len(c.args) > 1
                wrapped = isinstance(getattr(c, "_parent", None), ast.Call) or _inside_wait_for(c)
                full = [h for h in _handlers_around(c, push) if _covers_full(h) and not handler_reraises(h)]
                if (timed or wrapped) and full:
                    h = full[0]
                    body = next(t for t in parents(c) if isinstance(t, ast.Try) and h in t.handlers).body
                    pulled_inside = any(isinstance(x, ast.Call) and ((isinstance(x.func, ast.Name) and x.func.id in PULLS) or (isinstance(x.func, ast.Attribute) and x.func.attr in PULLS))
                                        for b in body for x in ast.walk(b))
                    if pulled_inside:
                        out.append(("violation", push, c, "timed put whose Full is swallowed next to the pull",
                                    f"{side}: the relay pulls an item from the user's iterator and hands it off with a timed/non-blocking put inside one try body whose handler swallows the queue-full "
                                    "error: when the consumer is slower than the timeout the pulled event is discarded and the next one is pulled (events are lost although the client is connected)"))
                        continue
                out.append(("ok", push, c, "", f"{side}: every item pulled from the user's iterator is enqueued (no hand-off that gives up and pulls the next item)"))
    if n < 2:
        out.append(("undecided", rs, None, "", f"expected an item put in both relays, found {n}"))
    return out


def _handlers_around(node: ast.AST, fn: FuncInfo) -> List[ast.ExceptHandler]:
    out = []
    child = node
    for par in parents(node):
        if isinstance(par, ast.Try) and any(child is b for b in par.body):
            out.extend(par.handlers)
        if par is fn.node:
            break
        child = par
    return out


def _covers_full(h: ast.ExceptHandler) -> bool:
    if h.type is None:
        return True
    names = [h.type] if not isinstance(h.type, ast.Tuple) else list(h.type.elts)
    for nm in names:
        t = ast.unparse(nm)
        if t.split(".")[-1] in ("Full", "QueueFull", "Exception", "BaseException", "TimeoutError"):
            return True
    return False


def _inside_wait_for(c: ast.AST) -> bool:
    for par in parents(c):
        if isinstance(par, ast.Call) and ast.unparse(par.func).endswith("wait_for"):
            return True
        if isinstance(par, ast.stmt):
            return False
    return False


# ----------------------------------------------------------------------------- no second response after a failed one
def _channel_params(fn: FuncInfo, side: str) -> Set[str]:
    want = "Send" if side == "asgi" else "StartResponse"
    out = set()
    f: Optional[FuncInfo] = fn
    while f is not None:
        a = f.node.args
        for x in a.posonlyargs + a.args + a.kwonlyargs:
            if x.annotation is not None and ast.unparse(x.annotation).split(".")[-1] == want:
                out.add(x.arg)
        f = f.parent
    return out


def _after(node: ast.AST, fn: FuncInfo) -> List[ast.stmt]:
    """statements that can run after `node` (a statement) completes normally: its later siblings in every enclosing block"""
    out: List[ast.stmt] = []
    child = node
    for par in parents(node):
        for fld in ("body", "orelse", "finalbody"):
            blk = getattr(par, fld, None)
            if isinstance(blk, list) and child in blk:
                out.extend(blk[blk.index(child) + 1:])
        if isinstance(par, ast.ExceptHandler) and child in par.body:
            pass
        if par is fn.node:
            break
        child = par
    return out


def _broad_or_io(h: ast.ExceptHandler) -> bool:
    """bare / BaseException / Exception, or OSError and its subclasses (the failures a response hits after it started: the
    file vanished, the connection broke). A handler for one specific other class (StopAsyncIteration, an HTTP exception of the
    package, WebSocketDisconnect) is the normal end of something, not a failed emission."""
    if h.type is None:
        return True
    for n in ([h.type] if not isinstance(h.type, ast.Tuple) else list(h.type.elts)):
        nm = ast.unparse(n).split(".")[-1]
        cls = getattr(builtins, nm, None)
        if nm in ("BaseException", "Exception"):
            return True
        if isinstance(cls, type) and issubclass(cls, OSError):
            return True
    return False


def no_response_after_failed_response(p: Program) -> List[Item]:
    """If a call that was handed the gateway's emit channel (send / start_response) fails, the response may already have
    started. A handler that catches such a failure (OSError family or broader) and then emits through the channel again - in
    the handler or in the code after the try - can produce a second response start."""
    out: List[Item] = []
    n = 0
    for side in ("asgi", "wsgi"):
        for f in [x for x in p.all_functions() if x.module.name.startswith(f"baize.{side}")]:
            ch = _channel_params(f, side)
            if not ch:
                continue

            def forwards(c: ast.Call) -> bool:
                if isinstance(c.func, ast.Name) and c.func.id in ch:
                    return True
                return any(isinstance(a, ast.Name) and a.id in ch for a in c.args) or any(isinstance(k.value, ast.Name) and k.value.id in ch for k in c.keywords)

            for t in [x for x in ast.walk(f.node) if isinstance(x, ast.Try)]:
                if p.func_of_node(next((q for q in [t] + list(parents(t)) if isinstance(q, (ast.FunctionDef, ast.AsyncFunctionDef))), f.node)) is not f:
                    continue
                inside = [c for b in t.body for c in ast.walk(b) if isinstance(c, ast.Call) and forwards(c)]
                if not inside:
                    continue
                n += 1
                bad = None
                for h in t.handlers:
                    if not _broad_or_io(h):
                        continue
                    in_handler = [c for b in h.body for c in ast.walk(b) if isinstance(c, ast.Call) and forwards(c)]
                    later = []
                    if not (h.body and isinstance(h.body[-1], (ast.Raise, ast.Return))):
                        later = [c for s_ in _after(t, f) for c in ast.walk(s_) if isinstance(c, ast.Call) and forwards(c)]
                    if in_handler or later:
                        bad = (h, (in_handler or later)[0])
                        break
                if bad:
                    h, c2 = bad
                    out.append(("violation", f, h, f"second response after except {ast.unparse(h.type) if h.type else ''}".strip(),
                                f"{f.fq}: a failure of `{ast.unparse(inside[0])[:60]}` - which was given the {side.upper()} emit channel and may already have started the response - is caught "
                                f"({'except ' + ast.unparse(h.type) if h.type else 'bare except'}) and `{ast.unparse(c2)[:60]}` then emits again: a second response start after the first one "
                                "(what was emitted is no longer a legal prefix)"))
                else:
                    out.append(("ok", f, t, "", f"{f.fq}: no handler around an emitting call leads to another emission"))
    if n == 0:
        out.append(("ok", p.all_functions()[0], None, "", "no try statement of baize.asgi / baize.wsgi encloses a call that is handed the emit channel together with a handler (nothing to restart)"))
    return out


# ----------------------------------------------------------------------------- WSGI: the application's iterable is never dropped
def wsgi_iterable_never_dropped(p: Program, rep=None) -> List[Item]:
    """Under WSGI a response object may be lazy: `response(environ, start_response)` of a generator-based response calls
    start_response only when its iterable is advanced. Every adapter of the package that invokes an application / a
    response with the caller's start_response therefore has to hand the returned iterable on - return it, `yield from` it,
    or pass it to something that does - on EVERY path. A path that drops it (`return ()` for HEAD ...) answers without ever
    calling start_response for streaming, file and event responses."""
    from ..collect import run_paths
    from ..flow import show, subterms

    out: List[Item] = []
    n_sites = 0
    for fn in p.all_functions():
        if not fn.module.name.startswith("baize.wsgi."):
            continue
        # syntactic pre-filter: a two-argument call whose second argument names a start_response
        cand = [c for c in ast.walk(fn.node) if isinstance(c, ast.Call) and len(c.args) == 2 and not c.keywords and isinstance(c.args[1], ast.Name) and "start_response" in c.args[1].id.lower()]
        own = [c for c in cand if all(q is fn.node or not isinstance(q, (ast.FunctionDef, ast.AsyncFunctionDef, ast.Lambda)) or q is fn.node for q in _fn_chain(c, fn))]
        if not own:
            continue
        try:
            paths, col, _it = run_paths(p, fn, fn.cls)
        except Exception as e_:
            out.append(("undecided", fn, None, "", f"{fn.fq}: not analysable ({e_})"))
            continue
        if rep is not None:
            rep.analysed(fn.fq)
            rep.cfg_paths += len(paths)
        bad = None
        seen = False
        for pa in paths:
            if pa.exit != "return":
                continue
            for i, e in enumerate(pa.events):
                if e.kind != "call" or len(e.b) != 2 or e.c:
                    continue
                sr = e.b[1]
                is_sr = (sr[0] == "param" and "start_response" in str(sr[1]).lower()) or (sr[0] in ("func", "closure") and "start_response" in str(sr[1]).lower())
                if not is_sr or e.a[0] == "cls" or (e.a[0] == "func" and e.a[1].endswith("__init__")) or (e.a[0] == "attr" and e.a[2] == "__init__"):
                    continue
                seen = True
                res = lambda t: isinstance(t, tuple) and len(t) >= 3 and t[0] == "call" and t[1] == e.a and t[2] == e.b
                used = isinstance(pa.value, tuple) and any(res(t) for t in subterms(pa.value))
                for l in pa.events[i + 1:]:
                    if used:
                        break
                    for x in (l.a, l.b):
                        if isinstance(x, tuple) and any(res(t) for t in subterms(x)):
                            used = True
                if not used and bad is None:
                    node = col.nodes.get(e.tag, (None, fn))[0]
                    bad = (node, show(("call", e.a, e.b, (), None))[:60], "; ".join(pa.fact_text())[:120])
        if not seen:
            continue
        n_sites += 1
        if bad:
            out.append(("violation", fn, bad[0], f"iterable of {bad[1]} dropped",
                        f"{fn.fq}: on the path where {bad[2] or 'always'}, the iterable returned by {bad[1]} is dropped (neither returned, yielded from nor handed on): a lazily evaluated response "
                        "(stream, file, event-stream - their __call__ is a generator) then never calls start_response, and its body iterator is never closed"))
        else:
            out.append(("ok", fn, None, "", f"{fn.fq}: the iterable returned by the application called with start_response is handed on (returned / yielded from / passed on) on every path"))
    if n_sites == 0:
        out.append(("undecided", p.all_functions()[0], None, "", "no WSGI adapter calling an application with start_response found (anchor vanished?)"))
    return out


def _fn_chain(node: ast.AST, fn: FuncInfo):
    """the function/lambda nodes between `node` and fn.node (inclusive) - empty when parents are not linked"""
    out = []
    for q in parents(node):
        if isinstance(q, (ast.FunctionDef, ast.AsyncFunctionDef, ast.Lambda)):
            out.append(q)
            if q is fn.node:
                break
    return out
