"""C11 - the WebSocket wrapper only forwards protocol-legal event sequences.

Static extraction of the wrapper's two automata from the AST (all paths of every public
method with send/receive inlined), then exhaustive exploration of the finite product with
the ASGI application-side grammar and the server script grammar."""
from __future__ import annotations

import ast
from collections import deque
from dataclasses import dataclass
from typing import Any, Dict, List, Optional, Sequence, Set, Tuple

from ..collect import Path, callee_is, run_paths
from ..common import nested_fn, passed_as_argument, defs_of, calls_in, construct, where
from ..flow import NONE, Value, contains, show, subterms
from ..fold import Folder, NotConst
from ..loader import AnalysisError, ClassInfo, FuncInfo, Program, walk_shallow
from ..report import Report, Undecided

WS = "baize.asgi.websocket"
STATES = ["CONNECTING", "CONNECTED", "DISCONNECTED"]
ORDER = {s: i for i, s in enumerate(STATES)}
APP_TYPES = ["websocket.accept", "websocket.send", "websocket.close", "websocket.other"]
SERVER_NEXT = {  # server script grammar: connect, frames*, disconnect
    "S0": [("websocket.connect", "S1")],
    "S1": [("websocket.receive", "S1"), ("websocket.disconnect", "S2")],
    "S2": [],
}
# ASGI application-side grammar
GRAMMAR = {
    ("G0", "websocket.accept"): "G1",
    ("G0", "websocket.close"): "G2",
    ("G1", "websocket.send"): "G1",
    ("G1", "websocket.close"): "G2",
}


class Unknown(Exception):
    pass


def enum_member(v: Value) -> Optional[str]:
    if v[0] == "attr" and v[1][0] == "cls" and v[1][1].endswith(":WebSocketState"):
        return v[2]
    return None


def evaluate(v: Value, env: Dict[Value, Any]) -> Any:
    """Concrete evaluation of an extracted guard under an assignment of its leaves."""
    if v in env:
        return env[v]
    k = v[0]
    if k == "const":
        return v[1]
    m = enum_member(v)
    if m is not None:
        return ("STATE", m)
    if k == "not":
        return not evaluate(v[1], env)
    if k == "and":
        return all(evaluate(x, env) for x in v[1])
    if k == "or":
        return any(evaluate(x, env) for x in v[1])
    if k == "cmp":
        a, b = evaluate(v[2], env), evaluate(v[3], env)
        if v[1] in ("Eq", "Is"):
            return a == b
        if v[1] == "In":
            return a in b
        raise Unknown(show(v))
    if k in ("set", "tuple", "list"):
        return tuple(evaluate(x, env) for x in v[1])
    raise Unknown(show(v))


@dataclass
class Step:
    kind: str  # recv | send | store_client | store_app
    value: Any = None  # send: message type value ; store: state name
    tag: int = 0


def linearise(pa: Path, msg_param: Optional[Value]) -> List[Step]:
    steps: List[Step] = []
    for e in pa.events:
        if e.kind == "call" and e.a == ("attr", ("param", "self"), "_receive"):
            steps.append(Step("recv", ("call", e.a, e.b, e.c, e.tag), e.tag))
        elif e.kind == "call" and e.a == ("attr", ("param", "self"), "_send"):
            m = e.b[0] if e.b else None
            steps.append(Step("send", m, e.tag))
        elif e.kind == "store" and e.a[0] == "attr" and e.a[1] == ("param", "self") and e.a[2] in ("client_state", "application_state"):
            mem = enum_member(e.b)
            if mem is None:
                raise Undecided(f"R11.1: state assigned a non-enum value {show(e.b)}")
            steps.append(Step("store_client" if e.a[2] == "client_state" else "store_app", mem, e.tag))
    return steps


def msg_type_value(m: Value) -> Value:
    if m[0] == "dict":
        cur = None
        for k, v in m[1]:  # a dict display is filled left to right: the LAST 'type' wins, and a `**spread` after it overrides it
            if k == ("const", "type"):
                cur = v
            elif k is None:
                cur = ("sub", v, ("const", "type"))
        if cur is None:
            raise Undecided("R11.1: message literal without a type")
        return cur
    return ("sub", m, ("const", "type"))


def denial_wrapper(p: Program, call: FuncInfo, idx: int):
    """(function, class | None) of the receive (idx 1) / send (idx 2) wrapper that WebsocketDenialResponse.__call__ hands to the HTTP
    response: a nested function, or a method of a holder object built in __call__ from a class of the module"""
    resp_calls = [c for c in calls_in(call) if isinstance(c.func, ast.Attribute) and c.func.attr == "response" and len(c.args) == 3]
    if not resp_calls:
        return None, None
    a = resp_calls[0].args[idx]
    # the wrapper as a module-level coroutine bound to the raw channel: functools.partial(_denial_receive, receive), given directly
    # or through a single-assignment local
    pa_ = a
    if isinstance(a, ast.Name):
        binds = [st.value for st in ast.walk(call.node) if isinstance(st, ast.Assign) and len(st.targets) == 1 and isinstance(st.targets[0], ast.Name) and st.targets[0].id == a.id]
        if len(binds) == 1:
            pa_ = binds[0]
    if isinstance(pa_, ast.Call) and ast.unparse(pa_.func).split(".")[-1] == "partial" and pa_.args and isinstance(pa_.args[0], ast.Name) and len(pa_.args) == 2 \
            and isinstance(pa_.args[1], ast.Name) and pa_.args[1].id in call.params and not pa_.keywords:
        try:
            mf = p.module(WS).functions.get(pa_.args[0].id)
        except Exception:
            mf = None
        if mf is not None and mf.params and mf.name.startswith("_"):
            return mf, None
    if isinstance(a, ast.Name):
        return nested_fn(call, a.id, passed_as_argument(call)), None
    if isinstance(a, ast.Attribute) and isinstance(a.value, ast.Name):
        for st in ast.walk(call.node):
            if isinstance(st, ast.Assign) and len(st.targets) == 1 and isinstance(st.targets[0], ast.Name) and st.targets[0].id == a.value.id and isinstance(st.value, ast.Call) and isinstance(st.value.func, ast.Name):
                try:
                    hc = p.cls(f"{WS}:{st.value.func.id}")
                except Exception:
                    hc = None
                if hc is not None and hc.methods.get(a.attr) is not None:
                    return hc.methods.get(a.attr), hc
    return None, None


def denial_receive_rule(p: Program):
    """The receive channel that WebsocketDenialResponse hands to the HTTP response translates the server's
    websocket.disconnect into the http.disconnect the streaming responses wait for: on every path that returns after a
    websocket.disconnect was received, the type of the RETURNED message is 'http.disconnect' (an in-place store, or a dict
    display whose last 'type' entry - `**spread`s included - says so). Yields (kind, fn, node, construct text, message)."""
    den = p.cls(f"{WS}:WebsocketDenialResponse")
    call = den.methods.get("__call__")
    if call is None:
        raise AnalysisError("WebsocketDenialResponse.__call__ vanished")
    resp_calls = [c for c in calls_in(call) if isinstance(c.func, ast.Attribute) and c.func.attr == "response" and len(c.args) == 3]
    wr, wr_cls = denial_wrapper(p, call, 1)
    if wr is None:
        if resp_calls and isinstance(resp_calls[0].args[1], ast.Name) and resp_calls[0].args[1].id in call.params:
            return [("violation", call, resp_calls[0], "raw receive handed to the response",
                     "the HTTP response of a denial is run with the websocket receive channel itself: the server's websocket.disconnect is never seen as http.disconnect, the response's disconnect watcher waits forever")]
        return [("undecided", call, None, "", "WebsocketDenialResponse: the receive wrapper handed to the HTTP response is not a nested function")]
    try:
        paths, _c, _i = run_paths(p, wr, wr_cls)
    except Exception as e_:
        return [("undecided", wr, None, "", f"{wr.fq} is not analysable ({e_})")]
    out = []
    n = 0
    for pa in paths:
        if pa.exit != "return":
            continue
        got = [f for f, t in pa.facts if f[0] == "cmp" and ((t and f[1] == "Eq") or (not t and f[1] == "NotEq")) and ("const", "websocket.disconnect") in (f[2], f[3])]
        if not got:
            continue
        n += 1
        src = got[0][3] if got[0][2] == ("const", "websocket.disconnect") else got[0][2]   # <received>['type']
        recvd = src[1] if src[0] == "sub" else None
        v = pa.value
        eff = None
        if v == recvd:
            stores = [e for e in pa.events if e.kind == "store" and e.a == ("sub", recvd, ("const", "type"))]
            eff = stores[-1].b if stores else ("const", "websocket.disconnect")
        elif v[0] == "dict":
            try:
                eff = msg_type_value(v)
            except Undecided:
                eff = None
            if eff == ("sub", recvd, ("const", "type")):
                stores = [e for e in pa.events if e.kind == "store" and e.a == ("sub", recvd, ("const", "type"))]
                eff = stores[-1].b if stores else ("const", "websocket.disconnect")
        if eff is None or eff[0] != "const":
            out.append(("undecided", wr, None, "", f"{wr.fq}: the type of the message returned after a websocket.disconnect is not recognised ({show(v)[:60]})"))
        elif eff[1] == "http.disconnect":
            out.append(("ok", wr, None, "", f"{wr.fq}: a received websocket.disconnect is handed to the HTTP response as http.disconnect"))
        else:
            out.append(("violation", wr, None, f"disconnect returned as {eff[1]!r}",
                        f"{wr.fq}: after the server's websocket.disconnect the message returned to the HTTP response still has type {eff[1]!r}"
                        + (" (in a dict display the `**msg` after the 'type' entry overrides it)" if v[0] == "dict" else "")
                        + ": the disconnect watcher of a streaming / event-stream denial response compares with 'http.disconnect', never sees it and waits forever - the response never ends and the producer is never closed"))
    if n == 0:
        out.append(("violation", wr, None, "websocket.disconnect not translated",
                    f"{wr.fq}: no path returns after recognising a websocket.disconnect: the HTTP response is never told that the peer went away"))
    return out


def _parents11(node: ast.AST, root: ast.AST):
    q = getattr(node, "_parent", None)
    while q is not None and q is not root:
        yield q
        q = getattr(q, "_parent", None)


def run(p: Program, rep: Report, tier: str) -> None:
    rep.level = "model_checking"
    rep.explanation = (
        "The wrapper's two state machines are extracted statically: every path of every public method of WebSocket "
        "(send/receive/_raise_on_disconnect inlined) with its branch guards over client_state, application_state, "
        "the forwarded message type and the type of the server event it consumed, its ordered effects (raw _receive, "
        "raw _send with the literal message, state stores) and its exit (return / raise). The extracted transition "
        "system is composed with the ASGI application-side grammar (accept|close first; send only between accept and "
        "close; nothing after close) and the server script grammar (connect, frames, disconnect) and the finite "
        "product is explored exhaustively: no reachable state forwards an event the grammar rejects, rejected calls "
        "raise before any raw channel use, no raw receive after the disconnect was delivered, states only move "
        "forward, close is idempotent, every receive returns the event of its own single raw receive. Plus who-may-call "
        "(only send/receive touch the raw channels) and the denial response."
    )
    rep.assume("guards are assert statements: under python -O they vanish; the quantifier does not range over interpreter flags")
    rep.assume("server scripts are connect, k frames, disconnect (the statement's quantifier); a server that violates its own grammar is out of scope")
    ws = p.cls(f"{WS}:WebSocket")

    # ---------------------------------------------------------------- R11.3 who may touch the raw channels
    raw_users = []
    for ci in [ws] + p.subclasses(ws):
        for m in ci.methods.values():
            for n in ast.walk(m.node):
                if isinstance(n, ast.Attribute) and n.attr in ("_send", "_receive") and isinstance(n.value, ast.Name) and n.value.id == "self":
                    if isinstance(n.ctx, ast.Store):
                        continue
                    raw_users.append((m, n))
    for m, n in raw_users:
        okm = (m.name == "send" and n.attr == "_send") or (m.name == "receive" and n.attr == "_receive")
        if okm and m.cls is ws:
            rep.ok("R11.3", f"{m.fq} uses self.{n.attr}")
        else:
            rep.violation("R11.3", construct(m, text=f"self.{n.attr}"), where(m, n), f"{m.fq} touches the raw channel self.{n.attr} outside the state-checking send()/receive()")
    sc = p.module("baize.asgi.shortcut").functions.get("websocket_session")
    if sc is None:
        raise AnalysisError("websocket_session vanished")
    inner = nested_fn(sc, "asgi")
    rep.analysed(sc.fq)
    okv = False
    for c in calls_in(inner) if inner else []:
        if isinstance(c.func, ast.Name) and c.func.id == "view":
            a = c.args
            if len(a) == 1 and not c.keywords:
                # the argument must be the WebSocket(...) wrapper (directly or through a local)
                ds = defs_of(inner, a[0])
                if ds and all(isinstance(d_, ast.Call) and p.resolve_call(inner, d_) is ws for d_ in ds):
                    okv = True
            if not okv:
                rep.violation("R11.3", construct(inner, c), where(inner, c), "websocket_session hands the view something other than the WebSocket wrapper (raw channels leak)")
    if okv:
        rep.ok("R11.3", "websocket_session passes only the wrapper to the view")
    # once the channels are wrapped, nothing in the function that wrapped them talks to the server directly: a raw
    # send()/receive() next to the wrapper bypasses the state machine (e.g. a second websocket.close after the view closed)
    from .stream_common import _send_params
    for f_ in [f for f in p.all_functions() if f.module.name.startswith("baize.asgi")]:
        wraps = [c for c in calls_in(f_) if p.resolve_call(f_, c) is ws or (isinstance(p.resolve_call(f_, c), type(ws)) and ws in p.mro(p.resolve_call(f_, c)))]
        if not wraps:
            continue
        sp = _send_params(f_)
        recv = {x.arg for x in f_.node.args.args if x.annotation is not None and ast.unparse(x.annotation).split(".")[-1] == "Receive"}
        rawc = [c for c in calls_in(f_, deep=True) if isinstance(c.func, ast.Name) and c.func.id in (sp | recv)]
        # only inside the branch that built the wrapper (the http branch of websocket_session answers 404 on the raw channel)
        from ..common import guards_of as _gof
        wg = [(ast.unparse(g), pol) for g, pol in _gof(wraps[0], f_.node)]
        bad = [c for c in rawc if [(ast.unparse(g), pol) for g, pol in _gof(c, f_.node)][:len(wg)] == wg]
        if bad:
            rep.violation("R11.3", construct(f_, text=f"raw {bad[0].func.id}() next to the WebSocket wrapper"), where(f_, bad[0]),
                          f"{f_.fq} builds the WebSocket wrapper and also calls the raw {bad[0].func.id}() of the same connection: events sent this way are not checked against the connection state "
                          "(a close after the view already closed, data after close) and are not reflected in it")
        else:
            rep.ok("R11.3", f"{f_.fq}: after wrapping the channels nothing is sent or received on the raw callables")
    rep.require_instances("R11.3", 4)

    # ---------------------------------------------------------------- R11.1 extraction
    OPS: List[Tuple[str, str, Optional[str]]] = [("accept", "accept", None), ("receive", "receive", None), ("receive_text", "receive_text", None),
                                                  ("receive_bytes", "receive_bytes", None), ("send_text", "send_text", None), ("send_bytes", "send_bytes", None),
                                                  ("close", "close", None)] + [(f"send[{t}]", "send", t) for t in APP_TYPES]
    CS0 = ("attr", ("param", "self"), "client_state")
    AS0 = ("attr", ("param", "self"), "application_state")
    extracted: Dict[str, List[Tuple[Path, List[Step]]]] = {}
    n_paths = 0
    for opname, meth, mt in OPS:
        m = p.find_method(ws, meth)
        if m is None:
            raise AnalysisError(f"WebSocket.{meth} vanished")
        if meth in extracted:
            continue
        paths, col, it = run_paths(p, m, ws, inline=lambda fi: fi.cls is ws, depth=4)
        rep.analysed(m.fq)
        n_paths += len(paths)
        extracted[meth] = [(pa, linearise(pa, None)) for pa in paths]
    rep.cfg_paths += n_paths
    rep.ok("R11.1", f"extracted {n_paths} guarded paths from {len(extracted)} public methods")
    for meth in ("iter_text", "iter_bytes"):
        m = p.find_method(ws, meth)
        if m is None:
            continue
        rep.analysed(m.fq)
        inner_calls = [c for c in calls_in(m) if isinstance(c.func, ast.Attribute) and isinstance(c.func.value, ast.Name) and c.func.value.id == "self"]
        names = {c.func.attr for c in inner_calls}
        if names <= {"receive_text", "receive_bytes"}:
            rep.ok("R11.1", f"{meth} is a loop over {sorted(names)} (covered by that operation)")
        else:
            rep.violation("R11.3", construct(m, text=str(sorted(names))), where(m), f"{meth} uses {sorted(names)} instead of the checked receive helpers")

    # ---------------------------------------------------------------- R11.2 the states only move forward: what is stored into them
    # The exploration below follows the normal exits. Independently of the path, a state attribute may only ever be assigned a
    # literal member of the state enumeration (the exploration checks the order of those); a store of a SAVED earlier value - e.g.
    # restoring the state in an `except` after the server's send() failed - moves the state backwards: after a failed close the
    # wrapper is CONNECTED again and forwards a second close.
    n_state_stores = 0
    for m_ in dict.values(ws.methods):
        for n in ast.walk(m_.node):
            tg_ = n.targets if isinstance(n, ast.Assign) else ([n.target] if isinstance(n, (ast.AugAssign, ast.AnnAssign)) and getattr(n, "value", None) is not None else [])
            for t_ in tg_:
                for leaf in (t_.elts if isinstance(t_, (ast.Tuple, ast.List)) else [t_]):
                    if isinstance(leaf, ast.Attribute) and leaf.attr in ("client_state", "application_state") and isinstance(leaf.value, ast.Name) and leaf.value.id == m_.params[0]:
                        n_state_stores += 1
                        v_ = n.value
                        def _lit(e_):
                            if isinstance(e_, ast.IfExp):
                                return _lit(e_.body) and _lit(e_.orelse)
                            return isinstance(e_, ast.Attribute) and e_.attr.isupper() and ast.unparse(e_.value).split(".")[-1] == "WebSocketState"
                        lit = _lit(v_) and not isinstance(t_, (ast.Tuple, ast.List))
                        in_handler = any(isinstance(q_, ast.ExceptHandler) for q_ in _parents11(n, m_.node))
                        saved = isinstance(v_, ast.Name) and any(isinstance(d_, ast.Attribute) and d_.attr in ("client_state", "application_state") for d_ in defs_of(m_, v_))
                        if lit and not in_handler:
                            rep.ok("R11.2", f"{m_.name}: {leaf.attr} is assigned literal state member(s): {ast.unparse(v_)[:50]}")
                        elif not in_handler and not saved:
                            rep.undecide("R11.2", f"{m_.name}: {leaf.attr} is assigned `{ast.unparse(v_)[:40]}`, not a literal state member: whether the state can move backwards is not decided")
                        else:
                            rep.violation("R11.2", construct(m_, text=f"{leaf.attr} = {ast.unparse(v_)[:40]}"), where(m_, n),
                                          f"{m_.name}() assigns {leaf.attr} " + ("inside an exception handler" if in_handler else "a value that is not a literal state member") +
                                          f" (`{ast.unparse(n)[:60]}`): the state can move backwards (e.g. back to CONNECTED after a close whose forwarding failed - the next close() is forwarded again)")
    if n_state_stores == 0:
        rep.undecide("R11.2", "no store to client_state / application_state found in WebSocket (state kept in an idiom outside the table)")

    # ---------------------------------------------------------------- R11.2 product exploration
    init = ("CONNECTING", "CONNECTING", "G0", "S0")
    # the constructor must establish the initial states
    ctor = ws.methods.get("__init__")
    inits = {}
    for n in walk_shallow(ctor.node):
        if isinstance(n, ast.Assign) and isinstance(n.targets[0], ast.Attribute) and n.targets[0].attr in ("client_state", "application_state"):
            inits[n.targets[0].attr] = ast.unparse(n.value).split(".")[-1]
    if inits != {"client_state": "CONNECTING", "application_state": "CONNECTING"}:
        rep.violation("R11.2", construct(ctor, text=f"initial states {inits}"), where(ctor), "the wrapper does not start in CONNECTING/CONNECTING")
    seen = {init}
    dq = deque([init])
    transitions = 0
    samples = []
    flagged: Set[str] = set()

    def flag(key: str, rule: str, fn: FuncInfo, msg: str, **kw) -> None:
        if key in flagged:
            return
        flagged.add(key)
        rep.violation(rule, construct(fn, text=key), where(fn), msg, **kw)

    while dq:
        cs, as_, g, s = dq.popleft()
        for opname, meth, mt in OPS:
            fn = p.find_method(ws, meth)
            applicable = 0
            for pa, steps in extracted[meth]:
                n_recv = sum(1 for x in steps if x.kind == "recv")
                if n_recv > 1:
                    flag(f"{meth}: {n_recv} raw receives on one path", "R11.2", fn, f"{meth}() can consume {n_recv} server events in one call (frames would be skipped)")
                    continue
                choices = SERVER_NEXT[s] if n_recv else [(None, s)]
                if n_recv and not choices:
                    choices = [("<none>", s)]
                for ev, s_next in choices:
                    env: Dict[Value, Any] = {CS0: ("STATE", cs), AS0: ("STATE", as_)}
                    if mt is not None:
                        env[("sub", ("param", "message"), ("const", "type"))] = mt
                    for st in steps:
                        if st.kind == "recv":
                            env[("sub", st.value, ("const", "type"))] = ev
                    try:
                        holds = all(evaluate(f, env) == t for f, t in pa.facts)
                    except Unknown as e:
                        raise Undecided(f"R11.1: guard of {meth} not evaluable: {e}")
                    if not holds:
                        continue
                    applicable += 1
                    transitions += 1
                    ncs, nas, ng, ns = cs, as_, g, s
                    forwarded: List[str] = []
                    recv_done = False
                    for st in steps:
                        if st.kind == "recv":
                            if s == "S2" or ev == "<none>":
                                flag(f"{meth}: raw receive after disconnect (client_state={cs})", "R11.2", fn,
                                     f"{opname} in state client={cs}, app={as_} issues a raw receive although the disconnect was already delivered")
                            ns = s_next
                            recv_done = True
                        elif st.kind == "send":
                            tv = msg_type_value(st.value)
                            try:
                                t = evaluate(tv, env)
                            except Unknown:
                                raise Undecided(f"R11.1: forwarded message type of {meth} not evaluable: {show(tv)}")
                            forwarded.append(t)
                            if (ng, t) not in GRAMMAR:
                                flag(f"{opname}: forwards {t} in grammar state {ng} (client={cs}, app={as_})", "R11.2", fn,
                                     f"{opname} forwards {t!r} to the server in state client={cs}, app={as_} where the ASGI grammar ({ng}) does not allow it")
                                ng = "GX"
                            else:
                                ng = GRAMMAR[(ng, t)]
                        elif st.kind == "store_client":
                            if ORDER[st.value] < ORDER[ncs]:
                                flag(f"{meth}: client_state {ncs}->{st.value}", "R11.2", fn, f"{opname} moves client_state backwards ({ncs} -> {st.value})")
                            ncs = st.value
                        elif st.kind == "store_app":
                            if ORDER[st.value] < ORDER[nas]:
                                flag(f"{meth}: application_state {nas}->{st.value}", "R11.2", fn, f"{opname} moves application_state backwards ({nas} -> {st.value})")
                            nas = st.value
                    rejected = pa.exit == "raise" and pa.value in ("AssertionError", "RuntimeError")
                    if rejected and forwarded:
                        flag(f"{opname}: rejected after forwarding (client={cs}, app={as_})", "R11.2", fn,
                             f"{opname} in state client={cs}, app={as_} raises {pa.value} after having forwarded {forwarded} to the server")
                    elif rejected and recv_done:
                        rep.observe(f"{opname} in state client={cs}, app={as_} consumes the server's {ev} event and then raises {pa.value}; nothing is forwarded (the statement only forbids forwarding) - recorded, not a violation")
                    # wrapper's own view must agree with what was actually forwarded
                    want_as = {"G0": "CONNECTING", "G1": "CONNECTED", "G2": "DISCONNECTED"}.get(ng)
                    if want_as is not None and nas != want_as:
                        flag(f"{opname}: application_state {nas} after grammar state {ng}", "R11.2", fn,
                             f"after {opname} (from client={cs}, app={as_}) application_state is {nas} but the events forwarded so far put the connection in {want_as}")
                    want_cs = {"S0": "CONNECTING", "S1": "CONNECTED", "S2": "DISCONNECTED"}[ns]
                    if ncs != want_cs:
                        flag(f"{opname}: client_state {ncs} after script state {ns}", "R11.2", fn,
                             f"after {opname} (from client={cs}, app={as_}) client_state is {ncs} but the server events delivered so far put the peer in {want_cs}")
                    # only the receive variants may consume a data frame / disconnect; accept() may consume `connect`
                    if recv_done and not meth.startswith("receive") and ev not in ("websocket.connect", "<none>", None):
                        flag(f"{opname}: consumes {ev} (client={cs}, app={as_})", "R11.2", fn,
                             f"{opname} in state client={cs}, app={as_} consumes the server's {ev} event and discards it: received frames are no longer returned in order exactly once")
                    # receive variants return the event of their own raw receive
                    if pa.exit == "return" and meth.startswith("receive") and recv_done:
                        rv = [x.value for x in steps if x.kind == "recv"][0]
                        if not contains(pa.value, rv):
                            flag(f"{meth}: returns {show(pa.value)}", "R11.2", fn, f"{meth}() does not return the event it consumed from the server")
                    if meth == "close" and as_ == "DISCONNECTED" and (forwarded or pa.exit != "return"):
                        flag("close: not idempotent", "R11.2", fn, "close() after close forwards an event or raises (must be a no-op)")
                    nxt = (ncs, nas, ng, ns)
                    if len(samples) < 14:
                        samples.append({"from": [cs, as_, g, s], "op": opname, "server_event": ev, "forwarded": forwarded, "exit": pa.exit if pa.exit == "return" else pa.value, "to": list(nxt)})
                    if ng != "GX" and nxt not in seen:
                        seen.add(nxt)
                        dq.append(nxt)
            if applicable == 0:
                raise Undecided(f"R11.1: no extracted path of {opname} applies in state client={cs}, app={as_} (extraction incomplete)")
    rep.states = len(seen)
    rep.transitions = transitions
    rep.samples.extend({"rule": "R11.2", "obligation": "product transition", "detail": smp} for smp in samples)
    if not any(k for k in flagged):
        rep.ok("R11.2", f"exhaustive product: {len(seen)} reachable states, {transitions} transitions, no illegal forward, no receive after disconnect, monotone states")
    rep.obligations += transitions
    rep.discharged += transitions - len(flagged)
    # transition before forwarding (the mechanism the property's anchors name): on every path of send() the state store
    # precedes the raw _send, so a second caller arriving while the server's send() is suspended sees the new state
    for pa, steps in extracted["send"]:
        kinds = [st.kind for st in steps]
        if "send" in kinds and "store_app" in kinds and kinds.index("send") < kinds.index("store_app"):
            flag("send: forwards before the state transition", "R11.2", p.find_method(ws, "send"),
                 "send() forwards the message to the server before it records the state transition: while the server's send() is suspended a second close()/send() still sees the old state and is forwarded too (close is not idempotent, events after close)")
    # literal messages of the helpers
    for meth, want in (("accept", "websocket.accept"), ("send_text", "websocket.send"), ("send_bytes", "websocket.send"), ("close", "websocket.close")):
        types = set()
        for pa, steps in extracted[meth]:
            for st in steps:
                if st.kind == "send":
                    tv = msg_type_value(st.value)
                    if tv[0] == "const":
                        types.add(tv[1])
        if types == {want}:
            rep.ok("R11.1", f"{meth}() forwards a literal {want!r} message")
        elif types:
            rep.violation("R11.1", construct(p.find_method(ws, meth), text=f"message types {sorted(types)}"), where(p.find_method(ws, meth)), f"{meth}() forwards {sorted(types)} instead of {want!r}")
    rep.require_instances("R11.1", 6)

    # ---------------------------------------------------------------- R11.4 denial response
    den = p.cls(f"{WS}:WebsocketDenialResponse")
    call = den.methods.get("__call__")
    if call is None:
        raise AnalysisError("WebsocketDenialResponse.__call__ vanished")
    rep.analysed(call.fq)
    paths, col, it = run_paths(p, call, den)
    rep.cfg_paths += len(paths)
    n_close = 0
    for pa in paths:
        if pa.exit != "return":
            continue
        sends = [e for e in pa.events if e.kind == "call" and e.a == ("param", "send")]
        resp = [e for e in pa.events if e.kind == "call" and e.a == ("attr", ("param", "self"), "response")]
        if resp:
            if sends:
                rep.violation("R11.4", construct(call, text="close + response"), where(call), "the denial response both closes the socket and runs the HTTP response")
            continue
        if len(sends) == 1 and sends[0].b and sends[0].b[0][0] == "dict" and msg_type_value(sends[0].b[0]) == ("const", "websocket.close"):
            n_close += 1
        else:
            rep.violation("R11.4", construct(call, text="no-extension path"), where(call), f"without the denial extension the socket is not closed with exactly one websocket.close ({len(sends)} sends)")
    # the HTTP response events (websocket.http.response.start/body) are legal only for a server that advertised the
    # "websocket.http.response" extension: every path that runs the response carries that membership test as a fact
    DEN_KEY = ("const", "websocket.http.response")
    for pa in paths:
        if pa.exit != "return" or not any(e.kind == "call" and e.a == ("attr", ("param", "self"), "response") for e in pa.events):
            continue
        member = [f for f, t in pa.facts if f[0] == "cmp" and ((f[1] == "In" and t) or (f[1] == "NotIn" and not t)) and f[2] == DEN_KEY]
        if member and any(contains(f[3], ("const", "extensions")) for f in member):
            rep.ok("R11.4", "the HTTP response of a denial runs only when the scope's extensions contain 'websocket.http.response'")
            continue
        opaque = [f for f, t in pa.facts if any(isinstance(x, tuple) and x and x[0] == "call" and x[1] != ("attr", ("param", "scope"), "get") for x in subterms(f))]
        if member or opaque:
            rep.undecide("R11.4", "the test that selects the HTTP response of a denial goes through a call the analysis does not follow")
        else:
            ext = [f for f, t in pa.facts if contains(f, ("const", "extensions"))]
            rep.violation("R11.4", construct(call, text="response without the extension test"), where(call),
                          "WebsocketDenialResponse runs the HTTP response " + ("on a test of the scope's extensions that does not ask for 'websocket.http.response' "
                          f"({show(ext[0])[:70]})" if ext else "without testing the scope's extensions") + ": a server that did not advertise the denial extension "
                          "(no extensions, or only others such as tls / http.response.push) is sent websocket.http.response.start as the first event, which is not a legal "
                          "websocket application event for it (accept or close first)", positive=True)
    if n_close:
        rep.ok("R11.4", "no-extension path sends exactly one websocket.close")
    else:
        rep.undecide("R11.4", "no-extension path not found")
    F = Folder(p)
    try:
        mapping = F.module_const(WS, "WEBSOCKET_DENIAL_RESPONSE_MAPPING")
    except (NotConst, AnalysisError) as e:
        mapping = None
        rep.undecide("R11.4", f"denial mapping not foldable: {e}")
    if mapping is not None:
        want = {"http.response.start": "websocket.http.response.start", "http.response.body": "websocket.http.response.body"}
        if mapping == want:
            rep.ok("R11.4", "denial mapping translates exactly the two HTTP response events")
        else:
            rep.violation("R11.4", construct(f"{WS}:WEBSOCKET_DENIAL_RESPONSE_MAPPING", text=str(sorted(mapping.items()))), f"{p.module(WS).relpath}:{p.module(WS).constants['WEBSOCKET_DENIAL_RESPONSE_MAPPING'].lineno}",
                          "the denial-response event mapping is not {http.response.start/body -> websocket.http.response.start/body}")
    ws_send, ws_send_cls = denial_wrapper(p, call, 2)
    if ws_send is None:
        ws_send = nested_fn(call, "ws_send", passed_as_argument(call))
    if ws_send is not None:
        rep.analysed(ws_send.fq)
        paths, col, it = run_paths(p, ws_send, ws_send_cls)
        for pa in paths:
            sends = [e for e in pa.events if e.kind == "call" and (e.a in (("free", "send"), ("param", "send")) or (e.a[0] == "attr" and e.a[1] == ("param", "self") and "send" in str(e.a[2])))]
            if pa.exit == "return" and sends:
                guard = [f for f, t in pa.facts if f[0] == "cmp" and f[1] == "In" and "MAPPING" in show(f[3])]
                # `mapped = MAPPING.get(msg['type']); if mapped is None: raise` is the same guard
                got_ = [f for f, t in pa.facts if f[0] == "cmp" and f[1] == "Is" and (f[3] == ("const", None) or (f[3][0] == "global" and f[2][0] == "call" and len(f[2][2]) > 1 and f[2][2][1] == f[3]))
                        and "MAPPING" in show(f[2]) and ".get(" in show(f[2])]
                if (guard and all(t is True for f, t in pa.facts if f in guard)) or (got_ and all(t is False for f, t in pa.facts if f in got_)):
                    rep.ok("R11.4", "ws_send forwards only message types found in the mapping")
                else:
                    rep.violation("R11.4", construct(ws_send, text="unguarded forward"), where(ws_send), "ws_send forwards a message whose type is not in the denial mapping")
        # ws_send rewrites the message it is given IN PLACE; that is only sound if every message the HTTP response code hands
        # to send() is a dict built for that one call (a shared module-level message would be rewritten for all later uses)
        mparam = (ws_send.params[1] if ws_send_cls is not None and len(ws_send.params) > 1 else ws_send.params[0]) if ws_send.params else "msg"
        in_place = [n for n in ast.walk(ws_send.node) if isinstance(n, (ast.Assign, ast.AugAssign)) and any(isinstance(t, ast.Subscript) and isinstance(t.value, ast.Name) and t.value.id == mparam
                    for t in (n.targets if isinstance(n, ast.Assign) else [n.target]))]
        if not in_place:
            rep.ok("R11.4", "ws_send forwards a translated copy: the caller's message is left untouched")
        if in_place:
            from .stream_common import _send_params
            n_fresh = 0
            for f_ in [f for f in p.all_functions() if f.module.name in ("baize.asgi.helper", "baize.asgi.responses")]:
                sp = _send_params(f_)
                for c in calls_in(f_):
                    if not (isinstance(c.func, ast.Name) and c.func.id in sp and c.args):
                        continue
                    a0 = c.args[0]
                    def _fresh_expr(x, f0=f_):
                        if isinstance(x, (ast.Dict, ast.DictComp)) or (isinstance(x, ast.Call) and isinstance(x.func, ast.Name) and x.func.id == "dict"):
                            return True
                        if isinstance(x, ast.Call):  # a repository function / method every return of which is a dict built in that call
                            try:
                                r0 = p.resolve_call(f0, x)
                            except Exception:
                                r0 = None
                            if not isinstance(r0, FuncInfo) and isinstance(x.func, ast.Attribute):
                                cands0 = [m0 for c0 in p.module(f0.module.name).classes.values() for n0, m0 in dict.items(c0.methods) if n0 == x.func.attr]
                                r0 = cands0[0] if len(cands0) == 1 else None
                            if isinstance(r0, FuncInfo):
                                rets0 = [n0 for n0 in ast.walk(r0.node) if isinstance(n0, ast.Return) and n0.value is not None]
                                def _fresh_ret(v0):
                                    if isinstance(v0, (ast.Dict, ast.DictComp)) or (isinstance(v0, ast.Call) and isinstance(v0.func, ast.Name) and v0.func.id == "dict"):
                                        return True
                                    if isinstance(v0, ast.Name):
                                        ds0 = [n1.value for n1 in ast.walk(r0.node) if isinstance(n1, (ast.Assign, ast.AnnAssign)) and n1.value is not None
                                               and any(isinstance(t1, ast.Name) and t1.id == v0.id for t1 in (n1.targets if isinstance(n1, ast.Assign) else [n1.target]))]
                                        return bool(ds0) and all(isinstance(d1, (ast.Dict, ast.DictComp)) or (isinstance(d1, ast.Call) and isinstance(d1.func, ast.Name) and d1.func.id == "dict") for d1 in ds0)
                                    return False
                                return bool(rets0) and all(_fresh_ret(n0.value) for n0 in rets0)
                        return False
                    fresh = _fresh_expr(a0)
                    if isinstance(a0, ast.Name):
                        defs = [n for n in ast.walk(f_.node) if isinstance(n, (ast.Assign, ast.AnnAssign)) and any(isinstance(t, ast.Name) and t.id == a0.id for t in (n.targets if isinstance(n, ast.Assign) else [n.target])) and n.value is not None]
                        fresh = bool(defs) and all(_fresh_expr(d.value) for d in defs)
                    if fresh:
                        n_fresh += 1
                    else:
                        rep.violation("R11.4", construct(f_, text=f"send({ast.unparse(a0)[:40]}) is not a per-call dict"), where(f_, c),
                                      f"{f_.fq} hands send() a message that is not built for this one call ({ast.unparse(a0)[:40]}), while the denial response's ws_send rewrites message['type'] in place: "
                                      "the shared message is a websocket.http.response.* event for every later HTTP response of the process")
            if n_fresh:
                rep.ok("R11.4", f"ws_send rewrites its argument in place; all {n_fresh} messages of the HTTP response helpers are dicts built per call")
    for kind_, fn_, node_, cons_, msg_ in denial_receive_rule(p):
        if kind_ == "ok":
            rep.analysed(fn_.fq)
            rep.ok("R11.4", msg_)
        elif kind_ == "undecided":
            rep.undecide("R11.4", msg_)
        else:
            rep.violation("R11.4", construct(fn_, text=cons_), where(fn_, node_), msg_)
    rep.require_instances("R11.4", 5)
