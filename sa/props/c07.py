"""C07 - static-file apps serve exactly the files inside their directory."""
from __future__ import annotations

import ast
import os
from typing import List, Optional, Tuple

from ..collect import default_inline, Path, callee_is, run_paths
from ..common import unit_inline, calls_in, construct, where
from ..flow import NONE, Value, contains, show, split_prefix, split_suffix, subterms
from ..loader import AnalysisError, ClassInfo, FuncInfo, Program, walk_shallow
from ..report import Report

NORMALISERS = ("os.path.abspath", "os.path.normpath", "os.path.realpath")
FS_SINKS = ("os.stat", "os.lstat", "open", "os.open", "os.listdir", "os.scandir", "os.path.isfile", "os.path.exists", "os.path.isdir")


def _is_ext(v: Value, *names: str) -> bool:
    return v[0] == "call" and v[1][0] == "ext" and v[1][1] in names


def _absolute(v: Value):
    """True: the path term is absolute whatever the working directory later is; False: it is relative when its input is;
    None: not recognised.  (importlib's ModuleSpec.origin is an absolute file name - recorded as an assumption.)"""
    if _is_ext(v, "os.path.abspath", "os.path.realpath"):
        return True
    if _is_ext(v, "os.path.normpath", "os.path.dirname", "os.path.normcase", "os.fspath", "str") and v[2]:
        return _absolute(v[2][0])
    if _is_ext(v, "os.path.join") and v[2]:
        rs = [_absolute(a) for a in v[2]]
        if any(r is True for r in rs):
            return True
        return None if any(r is None for r in rs) else False
    if v[0] == "attr" and v[2] == "origin":
        return True
    if v[0] in ("param", "const"):
        return False
    return None


_PROGRAM: list = []
_HELPER_OK: dict = {}


def _req_path(v: Value, side: str) -> bool:
    if side == "wsgi":
        if v[0] == "call" and v[1][0] == "attr" and v[1][2] == "get" and show(v[1][1]) == "environ" and v[2] and v[2][0] == ("const", "PATH_INFO"):
            return True
        # a helper that returns PATH_INFO as text: on every path either the value read from environ or that value re-decoded
        # from the Latin-1 a WSGI server hands out to UTF-8 (what an ASGI server puts into scope['path'])
        if v[0] == "call" and v[1][0] == "func" and len(v[2]) == 1 and show(v[2][0]) == "environ" and _PROGRAM:
            fq = v[1][1]
            if fq not in _HELPER_OK:
                p = _PROGRAM[0]
                hf = p.func(fq)
                hp = hf.params[0] if hf.params else "environ"
                raw = ("call", ("attr", ("param", hp), "get"), (("const", "PATH_INFO"), ("const", "")), ())
                ok = True
                paths, _c, _i = run_paths(p, hf, None, raises=lambda c, i, callee, node: ["UnicodeDecodeError", "UnicodeEncodeError"] if callee[0] == "attr" and callee[2] in ("decode", "encode") else [])
                rets = [pa for pa in paths if pa.exit == "return"]
                for pa in rets:
                    r = pa.value
                    plain = r[:4] == raw
                    red = r[0] == "call" and r[1][0] == "attr" and r[1][2] == "decode" and r[2][:1] in ((("const", "utf-8"),), (("const", "utf8"),)) and r[1][1][0] == "call" and r[1][1][1][0] == "attr" \
                        and r[1][1][1][2] == "encode" and r[1][1][2][:1] in ((("const", "latin-1"),), (("const", "latin1"),), (("const", "iso-8859-1"),)) and r[1][1][1][1][:4] == raw
                    ok = ok and (plain or red)
                ok = ok and bool(rets) and not any(pa.exit == "raise" for pa in paths)
                _HELPER_OK[fq] = ok
            return _HELPER_OK[fq]
        return False
    return v[0] == "sub" and show(v[1]) == "scope" and v[2] == ("const", "path")


_SF_MODS = ("baize.staticfiles", "baize.wsgi.staticfiles", "baize.asgi.staticfiles")
_SF_KEEPS = ("ensure_absolute_path", "check_path_is_file", "file_response", "request_path", "set_response_headers", "if_none_match", "if_modified_since", "__call__", "__init__", "normalize_dir_path")
_SF = unit_inline(_SF_MODS, _SF_KEEPS)
_SF_UTILS = unit_inline(_SF_MODS + ("baize.utils",), _SF_KEEPS)


def _confined(v: Value, side: str) -> Optional[str]:
    """None if v is  ensure_absolute_path(<request path>) [+ safe constant suffix]* ; otherwise why not."""
    while split_suffix(v) is not None:
        v, suf = split_suffix(v)
        if ".." in suf or "/" in suf.strip("/") or "\\" in suf or suf.startswith("/"):
            return f"suffix {suf!r} can leave the resolved file"
    if v[0] == "call" and callee_is(v[1], "ensure_absolute_path") and len(v[2]) == 1:
        if _req_path(v[2][0], side):
            return None
        return f"sanitiser applied to {show(v[2][0])}, not to the request path"
    if v[0] == "phi":
        for alt in v[1]:
            why = _confined(alt[2] if alt[0] == "when" else alt, side)
            if why is not None:
                return why
        return None
    if v[0] == "elem":
        # one of several candidates: every candidate must be confined
        src = v[1]
        if src[0] in ("list", "tuple") and src[1] and not any(x[0] == "star" for x in src[1]):
            for x in src[1]:
                why = _confined(x, side)
                if why is not None:
                    return why
            return None
        if src[0] == "gen" and _P:
            # a generator of candidates: what it yields, with its parameters replaced by the arguments
            try:
                g = _P[0].func(src[1])
            except Exception:
                g = None
            if g is not None and not src[3] and len(src[2]) <= len(g.params):
                off = 1 if (g.cls is not None and "staticmethod" not in g.decorators) else 0
                mapping = {("param", nm): a for nm, a in zip(g.params[off:], src[2])}
                gpaths, _gc, _gi = run_paths(_P[0], g, g.cls, inline=_SF)
                ys = [e.a for pa in gpaths for e in pa.events if e.kind == "yield"]
                if ys and not any(e.kind == "yield_from" for pa in gpaths for e in pa.events):
                    for y in ys:
                        why = _confined(_subst(y, mapping), side)
                        if why is not None:
                            return why
                    return None
    return f"{show(v)[:80]} is not the result of ensure_absolute_path(<request path>)"


_P: list = []


def _subst(t, mapping):
    if isinstance(t, tuple):
        if t in mapping:
            return mapping[t]
        return tuple(_subst(x, mapping) for x in t)
    return t


def run(p: Program, rep: Report, tier: str) -> None:
    _P[:] = [p]
    _PROGRAM[:] = [p]
    _HELPER_OK.clear()
    rep.explanation = (
        "R7.1 sanitiser dominance on every path of the four __call__s: each path expression that reaches a file-system "
        "sink (check_path_is_file -> os.stat, file_response -> FileResponse -> open) is ensure_absolute_path(<request path>) "
        "plus at most a separator-free constant suffix, and no other function of the static-file modules touches the file "
        "system. R7.2 shape of the sanitiser: the returned value is normalised (abspath/normpath/realpath) before the "
        "confinement test, the test is on the value that is returned, rejects with None, and is a segment-aware idiom "
        "(rel == '..' or rel.startswith('..' + os.sep); commonpath([...]) == dir; p == dir or p.startswith(dir + os.sep)); the two "
        "anti-idioms startswith(dir) (under-rejects siblings like dir-secret/) and rel.startswith('..') (over-rejects names "
        "beginning with two dots) are violations. R7.3 the regular-file test is on the stat of the served path and that "
        "stat_result is the one handed to FileResponse. R7.4 directory resolution is absolute. R7.5 Pages fallbacks are "
        "confined too. NOT decided: that every path maps to the right file (lexical equality), the '/dir/' index defect (F6)."
    )
    rep.assume("os.path.abspath/normpath/realpath/relpath/commonpath semantics (stdlib); symlinks are outside the statement (lexical resolution)")
    base = p.cls("baize.staticfiles:BaseFiles")

    # ------------------------------------------------------------------ who may touch the file system
    for mname in ("baize.staticfiles", "baize.wsgi.staticfiles", "baize.asgi.staticfiles"):
        m = p.module(mname)
        for fn in m.all_funcs:
            for c in calls_in(fn):
                r = p.resolve_call(fn, c)
                if isinstance(r, tuple) and r[0] in ("ext", "builtin") and r[1] in FS_SINKS:
                    if fn.fq == "baize.staticfiles:BaseFiles.check_path_is_file" and r[1] == "os.stat":
                        rep.ok("R7.1", "os.stat only in check_path_is_file")
                    elif fn.fq == "baize.staticfiles:BaseFiles.normalize_dir_path" and r[1] == "os.path.isdir":
                        rep.ok("R7.1", "os.path.isdir only on the configured directory (normalize_dir_path)")
                    else:
                        rep.violation("R7.1", construct(fn, c), where(fn, c), f"{fn.fq} touches the file system directly with {r[1]}(): a path can reach the file system without passing the sanitiser")
                if isinstance(r, ClassInfo) and r.name == "FileResponse" and fn.name != "file_response":
                    rep.violation("R7.1", construct(fn, c), where(fn, c), f"{fn.fq} constructs a FileResponse outside file_response()")

    # ------------------------------------------------------------------ R7.1 per __call__
    for side in ("wsgi", "asgi"):
        for cname in ("Files", "Pages"):
            cls = p.cls(f"baize.{side}.staticfiles:{cname}")
            call = p.find_method(cls, "__call__")
            rep.analysed(call.fq)
            paths, col, it = run_paths(p, call, cls, inline=_SF)
            rep.cfg_paths += len(paths)
            n_sink = 0
            for pa in paths:
                for e in pa.events:
                    if e.kind != "call":
                        continue
                    if callee_is(e.a, "check_path_is_file") and e.b:
                        n_sink += 1
                        why = _confined(e.b[0], side)
                        if why:
                            node, f = col.nodes[e.tag]
                            rep.violation("R7.1", construct(call, text=f"check_path_is_file({show(e.b[0])[:70]})"), where(call, node), f"{cls.fq}: a path reaches os.stat unconfined: {why}")
                    elif callee_is(e.a, "file_response") and e.b:
                        n_sink += 1
                        why = _confined(e.b[0], side)
                        node, f = col.nodes[e.tag]
                        if why:
                            rep.violation("R7.1", construct(call, text=f"file_response({show(e.b[0])[:70]})"), where(call, node), f"{cls.fq}: a path reaches FileResponse unconfined: {why}")
                            continue
                        # R7.3: stat_result of the SAME path, regular-file fact on this path
                        if len(e.b) < 2:
                            continue
                        sr = e.b[1]
                        okstat = sr[0] == "unpack" and sr[2] == 0 and sr[1][0] == "call" and callee_is(sr[1][1], "check_path_is_file") and sr[1][2] and sr[1][2][0] == e.b[0]
                        if not okstat:
                            rep.violation("R7.3", construct(call, text=f"file_response(path, {show(sr)[:60]})"), where(call, node), f"{cls.fq}: the stat_result handed to the file response is not the stat of the path that is served")
                            continue
                        isreg = ("unpack", sr[1], 1)
                        if (isreg, True) in pa.facts:
                            rep.ok("R7.3", f"{cls.name}[{side}]: file branch guarded by the S_ISREG result of the served path")
                        else:
                            rep.violation("R7.3", construct(call, text="file branch without regular-file test"), where(call, node), f"{cls.fq}: a path reaches the file response without the regular-file test of that path being true")
            if n_sink < 2:
                rep.undecide("R7.1", f"{cls.fq}.__call__: only {n_sink} sink uses found")
            else:
                rep.ok("R7.1", f"{cls.name}[{side}]: all {n_sink} sink uses on {len(paths)} paths take ensure_absolute_path(<request path>) (+ constant suffix)")
        # file_response: FileResponse(filepath, stat_result=stat_result) from its own parameters
        fcls = p.cls(f"baize.{side}.staticfiles:Files")
        fr = p.find_method(fcls, "file_response")
        rep.analysed(fr.fq)
        paths, col, it = run_paths(p, fr, fcls, inline=_SF)
        for pa in paths:
            for e in pa.events:
                if e.kind == "call" and callee_is(e.a, "FileResponse") and e.a[0] == "cls":
                    kw = dict(e.c)
                    if e.b and e.b[0] == ("param", "filepath") and kw.get("stat_result") == ("param", "stat_result"):
                        rep.ok("R7.3", f"{side}: FileResponse(filepath, stat_result=stat_result) uses file_response's own arguments")
                    else:
                        node, f = col.nodes[e.tag]
                        rep.violation("R7.3", construct(fr, node), where(fr, node), f"{side}: FileResponse is not built from the confined path and its own stat_result (a second stat of another path)")
    # check_path_is_file: (os.stat(path), S_ISREG(that stat's st_mode)); (None, False) otherwise
    cpf = base.methods.get("check_path_is_file")
    if cpf is None:
        raise AnalysisError("BaseFiles.check_path_is_file vanished")
    rep.analysed(cpf.fq)
    paths, col, it = run_paths(p, cpf, base, raises=lambda c, i, callee, node: ["OSError"] if callee == ("ext", "os.stat") else [])
    for pa in paths:
        if pa.exit != "return":
            if pa.value == "OSError":
                rep.violation("R7.3", construct(cpf, text="OSError of os.stat escapes"), where(cpf),
                              "check_path_is_file lets an OSError of os.stat(path) escape: only some subclasses are handled, so a request path with a component longer than NAME_MAX "
                              "(ENAMETOOLONG) or through a symbolic-link loop (ELOOP) is answered with an unhandled exception instead of not-found")
            else:
                rep.observe(f"check_path_is_file lets {pa.value} escape (C12)")
            continue
        v = pa.value
        if v[0] != "tuple" or len(v[1]) != 2:
            rep.violation("R7.3", construct(cpf, text=f"return {show(v)[:60]}"), where(cpf), "check_path_is_file does not return (stat_result, is_regular_file)")
            continue
        st, flag = v[1]
        if st == NONE:
            if flag != ("const", False):
                rep.violation("R7.3", construct(cpf, text=f"return {show(v)}"), where(cpf), "a path that could not be stat'ed is reported as a file")
            else:
                rep.ok("R7.3", "no stat result -> not a file")
        elif _is_ext(st, "os.stat") and st[2] == (("param", "path"),):
            if _is_ext(flag, "stat.S_ISREG") and flag[2] == (("attr", st, "st_mode"),):
                rep.ok("R7.3", "is_file = stat.S_ISREG(os.stat(path).st_mode) of the same path")
            else:
                rep.violation("R7.3", construct(cpf, text=f"is_file = {show(flag)[:60]}"), where(cpf), "the file flag is not stat.S_ISREG of the stat result of the checked path (directories / special files would be served)")
        else:
            rep.violation("R7.3", construct(cpf, text=f"stat_result = {show(st)[:60]}"), where(cpf), "the stat result does not belong to the checked path")
    rep.require_instances("R7.1", 5)
    rep.require_instances("R7.3", 8)

    # ------------------------------------------------------------------ R7.2 sanitiser shape
    eap = base.methods.get("ensure_absolute_path")
    if eap is None:
        raise AnalysisError("BaseFiles.ensure_absolute_path vanished")
    rep.analysed(eap.fq)
    paths, col, it = run_paths(p, eap, base, inline=_SF)
    rep.cfg_paths += len(paths)
    rets = [pa for pa in paths if pa.exit == "return"]
    nonnull = [pa for pa in rets if pa.value != NONE]
    nulls = [pa for pa in rets if pa.value == NONE]
    if not nulls:
        rep.violation("R7.2", construct(eap, text="no rejecting path"), where(eap), "ensure_absolute_path never returns None: nothing is rejected")
    if not nonnull:
        rep.undecide("R7.2", "ensure_absolute_path has no accepting path")
    DIR = ("attr", ("param", "self"), "directory")
    for pa in nonnull:
        v = pa.value
        core = v
        while split_suffix(core) is not None:
            core, suf_ = split_suffix(core)
            if suf_ not in ("/",):
                rep.violation("R7.2", construct(eap, text=f"suffix {suf_!r}"), where(eap), "the sanitiser appends something other than the constant '/' after normalising")
        if not _is_ext(core, *NORMALISERS):
            rep.violation("R7.2", construct(eap, text=f"return {show(v)[:80]}"), where(eap), "the returned path is not normalised with abspath/normpath/realpath before the confinement test (dot segments survive)")
            continue
        if not contains(core, DIR) or not contains(core, ("param", "path")):
            rep.violation("R7.2", construct(eap, text=f"return {show(v)[:80]}"), where(eap), "the returned path is not built from the configured directory and the request path")
        # classify the confinement facts of this accepting path
        verdict = _classify(pa, v, DIR)
        if verdict == "ok":
            rep.ok("R7.2", "accepting path passed a segment-aware confinement test on the value it returns: " + "; ".join(t for t in pa.fact_text() if "relpath" in t or "commonpath" in t or "startswith" in t)[:200])
        elif verdict == "over":
            rep.violation("R7.2", construct(eap, text="os.path.relpath(abspath, self.directory).startswith('..')"), where(eap),
                          "the confinement test `relpath(...).startswith('..')` is not segment-aware: a file named '..name' inside the directory is rejected (not every regular file inside is served)")
        elif verdict == "under":
            rep.violation("R7.2", construct(eap, text="abspath.startswith(self.directory)"), where(eap),
                          "the confinement test `abspath.startswith(directory)` is not segment-aware: a sibling such as 'directory-secret/x' passes (files outside the directory are served)")
        elif verdict == "other-value":
            rep.violation("R7.2", construct(eap, text="test on another value"), where(eap), "the confinement test is applied to a different value than the one that is returned")
        elif verdict == "none":
            rep.violation("R7.2", construct(eap, text="accepting path without test"), where(eap), "a path is accepted without any confinement test")
        else:
            rep.undecide("R7.2", f"confinement test in an idiom outside the table: {'; '.join(pa.fact_text())[:200]}")
    rep.require_instances("R7.2", 2)

    # ------------------------------------------------------------------ R7.4 directory resolution
    nd = base.methods.get("normalize_dir_path")
    init = base.methods.get("__init__")
    rep.analysed(nd.fq, init.fq)
    paths, col, it = run_paths(p, nd, base, inline=_SF_UTILS)
    for pa in paths:
        if pa.exit == "return":
            ab = _absolute(pa.value)
            if _is_ext(pa.value, *NORMALISERS) and ab is True:
                rep.ok("R7.4", f"normalize_dir_path returns the absolute, normalised {show(pa.value)[:70]}")
            elif _is_ext(pa.value, *NORMALISERS) and ab is None:
                rep.undecide("R7.4", f"normalize_dir_path returns {show(pa.value)[:70]}: whether that is an absolute path is not recognised")
            elif _is_ext(pa.value, *NORMALISERS):
                rep.violation("R7.4", construct(nd, text=f"return {show(pa.value)[:70]}"), where(nd),
                              "the configured directory is normalised but stays RELATIVE: every request resolves it against the working directory of that moment "
                              "(after a chdir the files of a like-named directory elsewhere are served)")
            else:
                rep.violation("R7.4", construct(nd, text=f"return {show(pa.value)[:70]}"), where(nd), "the configured directory is not made absolute/normalised")
    asserts = [n for n in walk_shallow(init.node) if isinstance(n, ast.Assert)]
    if any("isabs" in ast.unparse(a.test) and "package" in ast.unparse(a.test) for a in asserts):
        rep.ok("R7.4", "absolute directory together with a package is rejected")
    else:
        rep.violation("R7.4", construct(init, text="isabs/package assertion"), where(init), "an absolute directory combined with a package is no longer rejected")
    stores = [n for n in walk_shallow(init.node) if isinstance(n, ast.Assign) and ast.unparse(n.targets[0]) == "self.directory"]
    if stores and isinstance(stores[0].value, ast.Call) and ast.unparse(stores[0].value.func) == "self.normalize_dir_path":
        rep.ok("R7.4", "self.directory = self.normalize_dir_path(...)")
    else:
        rep.violation("R7.4", construct(init, text="self.directory"), where(init), "self.directory is not the normalised directory")

    # ------------------------------------------------------------------ R7.5 Pages
    for side in ("wsgi", "asgi"):
        pg = p.cls(f"baize.{side}.staticfiles:Pages")
        e2 = pg.methods.get("ensure_absolute_path")
        if e2 is None:
            rep.observe(f"{side} Pages does not override ensure_absolute_path")
            continue
        rep.analysed(e2.fq)
        paths, col, it = run_paths(p, e2, pg, inline=_SF)
        for pa in paths:
            if pa.exit != "return":
                continue
            v = pa.value
            sup = None
            for t in subterms(v):
                if t[0] == "call" and callee_is(t[1], "ensure_absolute_path") and t[2] == (("param", "path"),):
                    sup = t
            if v == NONE:
                continue
            if sup is None:
                rep.violation("R7.5", construct(e2, text=f"return {show(v)[:60]}"), where(e2), f"{side} Pages.ensure_absolute_path returns a path that did not come from the base sanitiser")
            elif v == sup:
                rep.ok("R7.5", f"{side} Pages: returns the base sanitiser's result")
            elif split_suffix(v) == (sup, "index.html") and ((("call", ("attr", sup, "endswith"), (("const", "/"),), (), 0)[:4] in [f[:4] for f, t in pa.facts if t and f[0] == "call"])
                                                             or any(t and f[0] == "cmp" and f[1] == "Eq" and ("/" in (f[2][1] if f[2][0] == "const" else None, f[3][1] if f[3][0] == "const" else None))
                                                                    and any(x[0] == "sub" and x[1] == sup and x[2][0] == "slice" and x[2][1] == ("const", -1) for x in (f[2], f[3])) for f, t in pa.facts)):
                rep.ok("R7.5", f"{side} Pages: appends the constant 'index.html' only to a result ending in '/'")
            else:
                rep.violation("R7.5", construct(e2, text=f"return {show(v)[:80]}"), where(e2), f"{side} Pages.ensure_absolute_path appends something other than 'index.html' to a '/'-terminated sanitised path")
        call = pg.methods.get("__call__")
        paths, col, it = run_paths(p, call, pg, inline=_SF)
        for pa in paths:
            for e in pa.events:
                if e.kind == "call" and callee_is(e.a, "check_path_is_file") and e.b and split_suffix(e.b[0]) is not None:
                    # the '.html' retry happens only when the first stat found nothing
                    first = split_suffix(e.b[0])[0]
                    want = (("cmp", "Is", ("unpack", ("call", ("func", "baize.staticfiles:BaseFiles.check_path_is_file"), (first,), (), 0), 0), NONE), True)
                    okf = any(t and f[0] == "cmp" and f[1] == "Is" and f[3] == NONE and f[2][0] == "unpack" and f[2][2] == 0 and f[2][1][0] == "call" and f[2][1][2] == (first,) for f, t in pa.facts)
                    if okf:
                        rep.ok("R7.5", f"{side} Pages: '.html' retry only when the plain path does not exist")
                    else:
                        node, f = col.nodes[e.tag]
                        rep.violation("R7.5", construct(call, text="html retry"), where(call, node), f"{side} Pages: the '.html' fallback is tried although the plain path exists")
                if e.kind == "call" and callee_is(e.a, "RedirectResponse"):
                    isdir = [f for f, t in pa.facts if t and f[0] == "call" and f[1] == ("ext", "stat.S_ISDIR")]
                    if isdir:
                        rep.ok("R7.5", f"{side} Pages: redirect only for directories")
                    else:
                        node, f = col.nodes[e.tag]
                        rep.violation("R7.5", construct(call, text="redirect"), where(call, node), f"{side} Pages: redirect issued without the S_ISDIR test")
                    url = e.b[0] if e.b else None
                    pkw = dict(url[3]).get("path") if url is not None and url[0] == "call" and len(url) > 3 else None
                    if pkw is not None and split_suffix(pkw) is not None and split_suffix(pkw)[1] == "/" and split_suffix(pkw)[0][0] == "attr" and split_suffix(pkw)[0][2] == "path":
                        rep.ok("R7.5", f"{side} Pages: redirect target is the same URL path + '/'")
                    else:
                        node, f = col.nodes[e.tag]
                        rep.violation("R7.5", construct(call, text=f"redirect {show(url)[:80] if url else ''}"), where(call, node), f"{side} Pages: the redirect target is not the request URL with '/' appended to its path")
    # a directory URL ending in '/' serves that directory's index page: Pages appends 'index.html' only to a sanitised path
    # that ends in '/', and os.path.abspath() DROPS a trailing slash - so the shared sanitiser must put it back for every
    # request path that ends in '/', not for the root alone (otherwise /dir/ is answered with a redirect to /dir//)
    base_eap = p.cls("baize.staticfiles:BaseFiles").methods.get("ensure_absolute_path")
    if base_eap is None:
        raise AnalysisError("BaseFiles.ensure_absolute_path vanished")
    PTH = ("param", base_eap.params[1])
    spaths, _sc, _si = run_paths(p, base_eap, p.cls("baize.staticfiles:BaseFiles"), inline=_SF)
    rep.cfg_paths += len(spaths)

    def ends_with_slash(f, t) -> Optional[bool]:
        """does the fact say that the request path ends in '/' (True) / does not (False); None: not such a fact"""
        if f[0] == "call" and f[1] == ("attr", PTH, "endswith") and f[2]:
            a0 = f[2][0]
            if a0 in (("const", "/"), ("ext", "os.sep"), ("ext", "os.path.sep")) or (a0[0] == "tuple" and ("const", "/") in a0[1]):
                return t
        if f[0] == "cmp" and f[1] == "Eq" and f[3] == ("const", "/") and f[2][0] == "sub" and f[2][1] == PTH:
            sl = f[2][2]
            if sl == ("const", -1) or (sl[0] == "slice" and sl[1] == ("const", -1)):
                return t
        return None

    restored = narrowed = 0
    for pa in spaths:
        if pa.exit != "return" or pa.value == NONE:
            continue
        ss = split_suffix(pa.value)
        has_slash = ss is not None and ss[1] in ("/",)
        if pa.value[0] == "const":
            continue
        ev = [ends_with_slash(f, t) for f, t in pa.facts]
        knows = next((x for x in ev if x is not None), None)
        if has_slash:
            if knows is True:
                restored += 1
            else:
                narrowed += 1
                cond = [x for x in pa.fact_text() if show(PTH) in x][:3]
                rep.violation("R7.5", construct(base_eap, text="trailing slash restored only under a narrower test"), where(base_eap),
                              f"the sanitiser restores the trailing '/' only when {cond}: for any other directory URL ending in '/' (e.g. /dir/) Pages does not append index.html, finds a directory and "
                              "redirects to the same URL plus '/' (/dir//) instead of serving the directory's index page")
        elif knows is True:
            narrowed += 1
            rep.violation("R7.5", construct(base_eap, text="trailing slash not restored"), where(base_eap), "a request path that ends in '/' is returned without its trailing '/' (abspath() drops it): the directory's index page is not served")
    if restored and not narrowed:
        rep.ok("R7.5", f"the sanitiser restores the trailing '/' for every request path that ends in '/' ({restored} paths)")
    elif not restored and not narrowed:
        rep.violation("R7.5", construct(base_eap, text="trailing slash never restored"), where(base_eap), "the sanitiser never restores the trailing '/' that abspath() drops: no directory URL can serve its index page")
    # file names are looked up by the UTF-8 text of the request path on both interfaces
    uses = [(f_, c_, ok_) for f_, c_, ok_ in wsgi_path_text_uses(p) if f_.module.name == "baize.wsgi.staticfiles"]
    for f_, c_, ok_ in uses:
        if ok_:
            rep.ok("R7.7", f"{f_.fq}: the path joined to the directory is PATH_INFO re-decoded from Latin-1 to UTF-8")
        else:
            rep.violation("R7.7", construct(f_, text="PATH_INFO used as text without re-decoding"), where(f_, c_),
                          f"{f_.fq} joins environ['PATH_INFO'] to the directory as it is: a WSGI server delivers the path bytes decoded as Latin-1, so a file whose name is not ASCII (café.txt) is "
                          "looked up as 'cafÃ©.txt' and answered 404 although it is inside the directory (ASGI serves it)")
    if not uses:
        rep.undecide("R7.7", "no use of PATH_INFO found in baize.wsgi.staticfiles")
    rep.require_instances("R7.7", 1)
    # the redirect target is computed from URL(scope=...) / URL(environ=...): both branches of that constructor must hand the
    # gateway's own root path + path to the builder (shared with C18/R18.1), otherwise a mounted Pages app redirects elsewhere
    from .c18 import gateway_url_branches
    gateway_url_branches(p, rep, "R7.5")
    rep.require_instances("R7.5", 21)

    # ---------------------------------------------------------------- R7.6 what is served is read from the resolved file, per request
    # no function on the serving path keeps file content (or anything else) in a container that outlives the request:
    # a body memo keyed by size/mtime/ETag serves the content of ANOTHER file whose key collides
    from ..common import process_wide_mutations
    serving = [f for f in p.all_functions() if f.module.name in ("baize.staticfiles", "baize.wsgi.staticfiles", "baize.asgi.staticfiles", "baize.responses", "baize.wsgi.responses", "baize.asgi.responses")]
    muts = process_wide_mutations(p, serving)
    for fn_, node_, what in muts:
        rep.violation("R7.6", construct(fn_, text="process-wide state: " + what.split("(")[0]), where(fn_, node_),
                      f"{fn_.fq}: {what} - the static-file serving path writes a container that outlives the request; content served later can come from that container instead of the resolved file")
    if not muts:
        rep.ok("R7.6", f"no function of the static-file / response modules ({len(serving)} scanned) mutates a module-level or class-level container")
    from ..common import controls_fire
    dead = controls_fire()
    if dead:
        rep.undecide("R7.6", f"positive control: detector(s) {dead} no longer fire on sa/fixtures/controls")
    else:
        rep.ok("R7.6", "positive control: the detectors fire on the committed fixture")
    rep.require_instances("R7.6", 1)


def _classify(pa: Path, returned: Value, DIR: Value) -> str:
    """Which confinement idiom do the facts of an accepting path show?"""
    rel_calls = []
    verdict = "none"
    seen_eq = seen_sep = False
    for f, t in pa.facts:
        # relpath idioms ------------------------------------------------
        for s in subterms(f):
            if s[0] == "call" and s[1] == ("ext", "os.path.relpath"):
                rel_calls.append(s)
        if f[0] == "call" and f[1][0] == "attr" and f[1][2] == "startswith" and f[1][1][0] == "call" and f[1][1][1] == ("ext", "os.path.relpath"):
            rel = f[1][1]
            if rel[2][0] != returned:
                return "other-value"
            arg = f[2][0] if f[2] else None
            if arg == ("const", "..") and t is False:
                verdict = "over" if verdict == "none" else verdict
            elif arg is not None and split_prefix(arg) is not None and split_prefix(arg)[0] == ".." and t is False:
                seen_sep = True
            elif arg == ("const", "../") and t is False:
                seen_sep = True
        if f[0] == "cmp" and f[1] == "Eq" and f[3] == ("const", "..") and f[2][0] == "call" and f[2][1] == ("ext", "os.path.relpath") and t is False:
            if f[2][2][0] != returned:
                return "other-value"
            seen_eq = True
        # first component of the relative path: relpath(...).partition(sep)[0] / .split(sep)[0] / .split(sep, 1)[0] == ".."
        if f[0] == "cmp" and f[1] == "Eq" and t is False and ("const", "..") in (f[2], f[3]):
            o = f[2] if f[3] == ("const", "..") else f[3]
            if o[0] == "unpack" and o[2] == 0:
                o = ("sub", o[1], ("const", 0))  # first, _, _ = rel.partition(sep)
            if o[0] == "sub" and o[2] == ("const", 0) and o[1][0] == "call" and o[1][1][0] == "attr" and o[1][1][2] in ("partition", "split") \
                    and o[1][1][1][0] == "call" and o[1][1][1][1] == ("ext", "os.path.relpath") and o[1][2] and o[1][2][0] in (("ext", "os.sep"), ("ext", "os.path.sep"), ("const", "/")):
                if o[1][1][1][2][0] != returned:
                    return "other-value"
                seen_eq = seen_sep = True
        # commonpath idiom ---------------------------------------------
        if f[0] == "cmp" and f[1] == "Eq" and t is True:
            a, b = f[2], f[3]
            for x, y in ((a, b), (b, a)):
                if x[0] == "call" and x[1] == ("ext", "os.path.commonpath") and y == DIR:
                    if contains(x, returned) and contains(x, DIR):
                        return "ok"
                    return "other-value"
        # startswith(directory) idioms ---------------------------------
        if f[0] == "call" and f[1][0] == "attr" and f[1][2] == "startswith" and t is True:
            recv, arg = f[1][1], (f[2][0] if f[2] else None)
            if arg == DIR:
                if recv != returned:
                    return "other-value"
                verdict = "under"
            elif arg is not None and ((arg[0] == "binop" and arg[1] == "Add" and arg[2] == DIR) or (split_suffix(arg) is not None and split_suffix(arg)[0] == DIR) or (arg[0] == "fstr" and arg[1] and arg[1][0] == DIR)):
                if recv != returned:
                    return "other-value"
                return "ok"
        if f[0] == "cmp" and f[1] == "Eq" and t is True and {f[2], f[3]} == {returned, DIR}:
            return "ok"
    if seen_eq and seen_sep:
        return "ok"
    if verdict in ("over", "under"):
        return verdict
    if seen_eq or seen_sep:
        return "unknown"
    return verdict if verdict != "none" else ("unknown" if rel_calls else "none")


_TEXT_SINKS = ("search", "ensure_absolute_path", "startswith", "matches")


def wsgi_path_text_uses(p: Program):
    """Every WSGI function that hands the request path to text-level code (route matching, prefix tests, joining with a
    directory): (function, call node, re-decoded?).  A WSGI server delivers PATH_INFO as the path bytes decoded as Latin-1
    (PEP 3333) while an ASGI server delivers scope['path'] decoded as UTF-8, so text-level use without re-decoding gives a
    different result for every non-ASCII path."""
    out = []
    for f in p.all_functions():
        if not f.module.name.startswith("baize.wsgi"):
            continue
        for c in calls_in(f, deep=True):
            if not (isinstance(c.func, ast.Attribute) and isinstance(c.func.value, ast.Name) and c.func.value.id == "self"):
                continue
            if not c.args:
                continue
            if c.func.attr not in _TEXT_SINKS:
                # a private helper that hands its first argument on to one of the sinks is a sink itself
                h_ = p.resolve_call(f, c)
                if not (isinstance(h_, FuncInfo) and (default_inline(h_) or _SF(h_)) and len(h_.params) >= 2):
                    continue
                par = h_.params[1]
                if not any(isinstance(c2.func, ast.Attribute) and c2.func.attr in _TEXT_SINKS and c2.args and isinstance(c2.args[0], ast.Name) and c2.args[0].id == par for c2 in calls_in(h_, deep=True)):
                    continue
            a0 = c.args[0]
            src = a0
            if isinstance(a0, ast.Name):
                defs = [n.value for n in ast.walk(f.node) if isinstance(n, ast.Assign) and any(isinstance(t, ast.Name) and t.id == a0.id for t in n.targets)]
                src = defs[0] if defs else a0
            txt = ast.unparse(src)
            if "PATH_INFO" in txt:
                out.append((f, c, False))
            elif isinstance(src, ast.Call) and isinstance(p.resolve_call(f, src), FuncInfo):
                hf = p.resolve_call(f, src)
                ht = ast.unparse(hf.node)
                if "PATH_INFO" in ht:
                    out.append((f, c, ".encode(" in ht and ".decode(" in ht))
    return out
