"""C06 - streaming responses always terminate and release the producer (structural necessary conditions)."""
from __future__ import annotations

import ast
from typing import Dict, List, Optional, Set, Tuple

from ..collect import Path, callee_is, run_paths
from ..common import defs_of, nested_fn, passed_as_argument, calls_in, construct, where
from ..flow import ANY_BASE, ANY_EXC, NONE, Value, contains, show, subterms
from ..loader import AnalysisError, ClassInfo, FuncInfo, Program, walk_shallow
from ..report import Report


def _finally_blocks(fn: FuncInfo) -> List[ast.Try]:
    return [n for n in walk_shallow(fn.node) if isinstance(n, ast.Try) and n.finalbody]


def _fold_inliner_aliases(fn: FuncInfo) -> None:
    """A private helper spliced into `fn` by the loader (N9) leaves alias locals for its parameters (`_helper__q = q`). The rules
    below name the queue / the relay handle by the caller's own variable: rename such single-assignment aliases of a plain local
    back to it (semantically neutral, in place, idempotent)."""
    assigned: Dict[str, int] = {}
    for n in ast.walk(fn.node):
        if isinstance(n, ast.Name) and isinstance(n.ctx, ast.Store):
            assigned[n.id] = assigned.get(n.id, 0) + 1
    alias = {}
    for n in ast.walk(fn.node):
        if isinstance(n, ast.Assign) and len(n.targets) == 1 and isinstance(n.targets[0], ast.Name) and isinstance(n.value, ast.Name) and "__" in n.targets[0].id \
                and assigned.get(n.targets[0].id) == 1 and assigned.get(n.value.id, 0) <= 1:
            alias[n.targets[0].id] = n.value.id
    if not alias:
        return
    for n in ast.walk(fn.node):
        if isinstance(n, ast.Name) and n.id in alias and isinstance(n.ctx, ast.Load):
            tgt = n.id
            while tgt in alias:
                tgt = alias[tgt]
            n.id = tgt


def _in(node: ast.AST, roots: List[ast.stmt]) -> bool:
    return any(node is x for r in roots for x in ast.walk(r))


def run(p: Program, rep: Report, tier: str) -> None:
    rep.explanation = (
        "Interleavings and deadlines are schedule-quantified and NOT decided. Decided structural necessary conditions: R6.1 every "
        "task/future created in the streaming code (ensure_future, thread_pool.submit) is cancelled or awaited for its outcome on "
        "every exit - normal, exceptional, generator close - of the function that created it (path-sensitive, with exceptions "
        "and GeneratorExit injected at every call/await/yield). R6.2 the user's iterable is closed in a finally on every exit of "
        "the relay, of the ASGI stream generator and of the ASGI streaming __call__, guarded at most by hasattr, once per path; "
        "the WSGI stream delegates with `yield from`, which forwards close(). R6.3 wait-for rule of the hand-off: a join-like "
        "wait of the closing consumer on a THREAD relay is only legal if every blocking put of the relay on the bounded queue "
        "is non-blocking/timed, or the consumer keeps draining until the relay is done, or the queue is unbounded; on asyncio "
        "the join is legal when it is reached only after cancel() returned False (task already finished). R6.4 the hand-off "
        "is a FIFO queue with one producer loop and one consumer loop in which every dequeued non-sentinel item is yielded. R6.5 no "
        "handler around an ASGI send() (direct or through the emit helpers) can swallow OSError - the server's disconnect signal - so the "
        "streaming loop ends at the producer's next step. R6.6 the 'client went away' flag is set only from a received http.disconnect. "
        "R6.7 an item pulled from the user's iterator is always enqueued (no timed put that gives up and pulls the next item)."
    )
    rep.assume("concurrent.futures.Future.cancel() of a running thread future returns False; asyncio.Task.cancel() of a pending task returns True and interrupts a blocked `await q.put`")
    rep.assume("`yield from it` forwards close()/throw() to `it` (PEP 380)")

    def inject(c, i, callee, node):
        if callee == ("builtin", "next"):
            return ["StopIteration", ANY_EXC]  # the user's generator may raise anything
        if callee[0] == "builtin" or callee[0] in ("getitem", "setitem", "delitem"):
            return []
        if callee[0] == "attr" and callee[2] in ("put", "put_nowait"):
            # a blocking put does not raise (that it may block forever is R6.3's subject); a timed / non-blocking one raises Full
            timed = callee[2] == "put_nowait" or (isinstance(node, ast.Call) and (len(node.args) > 1 or any(k.arg in ("timeout", "block") for k in node.keywords)))
            return ["queue.Full"] if timed else []
        if callee[0] == "attr" and callee[2] in ("cancel", "done", "empty", "get_nowait", "exception", "set", "is_set"):
            return []  # queue/future bookkeeping: does not raise in this model
        if callee[0] == "attr" and callee[2] == "get":
            return ["queue.Empty"]
        if callee == ("ext", "asyncio.wait_for"):
            return ["asyncio.TimeoutError", ANY_EXC]
        return [ANY_EXC]

    # ---------------------------------------------------------------- R6.1 handle pairing
    sites = [("baize.asgi.responses:StreamingResponse", "__call__"), ("baize.asgi.responses:SendEventResponse", "render_stream"), ("baize.wsgi.responses:SendEventResponse", "render_stream")]
    for cfq, mname in sites:
        cls = p.cls(cfq)
        fn = cls.methods.get(mname)
        if fn is None:
            raise AnalysisError(f"{cfq}.{mname} vanished")
        rep.analysed(fn.fq)
        paths, col, it = run_paths(p, fn, cls, raises=inject, yield_raises=True)
        rep.cfg_paths += len(paths)
        created_any = False
        bad: Optional[Path] = None
        for pa in paths:
            idx = [i for i, e in enumerate(pa.events) if e.kind == "call" and (e.a == ("ext", "asyncio.ensure_future") or (e.a[0] == "attr" and e.a[2] == "submit"))]
            for i0 in idx:
                created_any = True
                e0 = pa.events[i0]
                h = ("call", e0.a, e0.b, e0.c, e0.tag)
                later = pa.events[i0 + 1:]
                if pa.exit == "raise" and not later:
                    continue
                settled = [e for e in later if e.kind == "call" and e.a[0] == "attr" and e.a[1] == h and e.a[2] in ("cancel", "exception", "result")]
                if not settled:
                    bad = pa
        if not created_any:
            rep.undecide("R6.1", f"{fn.fq}: no task/future creation found")
        elif bad is not None:
            rep.violation("R6.1", construct(fn, text="task/future not settled on every exit"), where(fn),
                          f"{fn.fq}: an exit ({bad.exit} {bad.value if bad.exit == 'raise' else ''}) leaves the background task/future neither cancelled nor awaited (it stays pending)", path_facts=bad.fact_text()[:8])
        else:
            rep.ok("R6.1", f"{fn.fq}: the background handle is cancelled/awaited on all {len(paths)} exits (incl. exceptions and generator close)")
        # the settling call sits in a finally block
        fins = _finally_blocks(fn)
        hnames = _handle_names(fn)
        setl = [c for c in calls_in(fn) if isinstance(c.func, ast.Attribute) and c.func.attr in ("cancel", "exception", "result") and isinstance(c.func.value, ast.Name) and c.func.value.id in hnames]
        if setl and all(any(_in(c, t.finalbody) for t in fins) for c in setl):
            rep.ok("R6.1", f"{fn.fq}: the handle is settled inside a finally block")
        elif setl:
            rep.violation("R6.1", construct(fn, text="settled outside finally"), where(fn, setl[0]), f"{fn.fq}: the handle is settled outside a finally block")
        elif created_any and bad is None:
            # no settling call in the function's own text: it sits in inlined code that runs on every exit (the __exit__ / __aexit__ of a
            # private context manager, a private helper called from a finally) - the path rule above has covered every exit
            rep.ok("R6.1", f"{fn.fq}: the handle is settled by code that runs on every exit (context manager / helper), see the path rule")
    rep.require_instances("R6.1", 6)

    # ---------------------------------------------------------------- R6.2 producer release
    release_sites = [
        ("baize.asgi.responses:StreamingResponse", "__call__", None, "generator", "aclose"),
        ("baize.asgi.responses:StreamResponse", "render_stream", None, "self.iterable", "aclose"),
        ("baize.asgi.responses:SendEventResponse", "render_stream", "push", "self.iterable", "aclose"),
        ("baize.wsgi.responses:SendEventResponse", "render_stream", "push", "self.iterable", "close"),
    ]
    for cfq, mname, nested, what, meth in release_sites:
        cls = p.cls(cfq)
        fn = cls.methods.get(mname)
        if fn is not None and nested:
            fn = nested_fn(fn, nested, passed_as_argument(fn))
        if fn is None:
            raise AnalysisError(f"{cfq}.{mname}{'.' + nested if nested else ''} vanished")
        rep.analysed(fn.fq)
        paths, col, it = run_paths(p, fn, cls if not nested else None, raises=inject, yield_raises=True)
        rep.cfg_paths += len(paths)
        bad = None
        twice = None
        n_checked = 0
        for pa in paths:
            closes = [e for e in pa.events if e.kind == "call" and e.a[0] == "attr" and e.a[2] == meth and ("iterable" in show(e.a[1]) or "render_stream" in show(e.a[1]))]
            has = [t for f, t in pa.facts if f[0] == "call" and f[1] == ("builtin", "hasattr") and f[2][1:] == (("const", meth),)]
            started = any(e.kind in ("call", "yield") for e in pa.events)
            if not started:
                continue
            # the asgi __call__ creates the generator after the start event: exits before that have nothing to close
            if mname == "__call__" and not any(e.kind == "call" and callee_is(e.a, "render_stream") for e in pa.events):
                continue
            n_checked += 1
            if has and has[0] is False:
                continue  # iterable has no close method: nothing to release
            if not closes:
                bad = pa
            elif len(closes) > 1:
                twice = pa
        if bad is not None:
            rep.violation("R6.2", construct(fn, text=f"{what}.{meth}() not on every exit"), where(fn),
                          f"{fn.fq}: an exit ({bad.exit} {bad.value if bad.exit == 'raise' else ''}) does not close the user's iterable ({what}.{meth}()): its cleanup code does not run", path_facts=bad.fact_text()[:8])
        elif twice is not None:
            rep.violation("R6.2", construct(fn, text=f"{what}.{meth}() twice"), where(fn), f"{fn.fq}: a path closes the user's iterable twice")
        elif n_checked:
            rep.ok("R6.2", f"{fn.fq}: {what}.{meth}() runs exactly once on all {n_checked} exits (guarded at most by hasattr)")
        else:
            rep.undecide("R6.2", f"{fn.fq}: no path to check")
    wsr = p.cls("baize.wsgi.responses:StreamResponse").methods.get("render_stream")
    if wsr is not None and [ast.unparse(n.value) for n in ast.walk(wsr.node) if isinstance(n, ast.YieldFrom)] == ["self.iterable"]:
        rep.ok("R6.2", "wsgi StreamResponse delegates with `yield from self.iterable` (close() is forwarded to the user's iterable)")
    else:
        rep.violation("R6.2", construct(wsr, text="delegation"), where(wsr), "wsgi StreamResponse.render_stream no longer delegates with `yield from self.iterable`: closing the response does not close the user's iterable")
    rep.require_instances("R6.2", 5)

    # ---------------------------------------------------------------- R6.3 wait-for rule
    for side in ("wsgi", "asgi"):
        cls = p.cls(f"baize.{side}.responses:SendEventResponse")
        rs = cls.methods["render_stream"]
        push = nested_fn(rs, "push", passed_as_argument(rs))
        if push is None:
            raise AnalysisError(f"{side} render_stream.push vanished")
        qdefs = [n for n in walk_shallow(rs.node) if isinstance(n, (ast.Assign, ast.AnnAssign)) and isinstance(n.value, ast.Call) and ast.unparse(n.value.func) in ("queue.Queue", "asyncio.Queue", "queue.LifoQueue", "queue.PriorityQueue", "queue.SimpleQueue", "asyncio.LifoQueue", "asyncio.PriorityQueue")]
        if len(qdefs) != 1:
            rep.undecide("R6.3", f"{side}: hand-off queue definition not found")
            continue
        qd = qdefs[0]
        qname = ast.unparse(qd.targets[0] if isinstance(qd, ast.Assign) else qd.target)
        _fold_inliner_aliases(rs)
        qkind = ast.unparse(qd.value.func)
        ms = next((k.value for k in qd.value.keywords if k.arg == "maxsize"), qd.value.args[0] if qd.value.args else None)
        bounded = isinstance(ms, ast.Constant) and isinstance(ms.value, int) and ms.value > 0
        # R6.4 FIFO
        if qkind in ("queue.Queue", "asyncio.Queue"):
            rep.ok("R6.4", f"{side}: hand-off is a FIFO {qkind}")
        else:
            rep.violation("R6.4", construct(rs, text=f"{qname} = {qkind}(...)"), where(rs, qd), f"{side}: the hand-off queue is a {qkind}: events are not delivered in the order they were yielded")
        puts = [c for c in calls_in(push) if isinstance(c.func, ast.Attribute) and ast.unparse(c.func.value) == qname and c.func.attr in ("put", "put_nowait")]
        blocking = [c for c in puts if c.func.attr == "put" and not any(k.arg in ("timeout", "block") for k in c.keywords) and len(c.args) < 2]
        fins = _finally_blocks(rs)
        joins = [c for c in calls_in(rs) if isinstance(c.func, ast.Attribute) and c.func.attr in ("exception", "result") and not c.args and not c.keywords and any(_in(c, t.finalbody) for t in fins)]
        if side == "wsgi":
            submitted = any(isinstance(c.func, ast.Attribute) and c.func.attr == "submit" for c in calls_in(rs))
            if not submitted:
                rep.undecide("R6.3", "wsgi: relay is not submitted to a thread pool")
                continue
            # does the consumer's finally keep draining until the relay is done?
            drain_until_done = False
            for t in fins:
                for n in ast.walk(ast.Module(body=t.finalbody, type_ignores=[])):
                    if isinstance(n, ast.While) and "done()" in ast.unparse(n.test) and "not" in ast.unparse(n.test):
                        body_src = ast.unparse(ast.Module(body=n.body, type_ignores=[]))
                        if f"{qname}.get(" in body_src or f"{qname}.get_nowait(" in body_src:
                            drain_until_done = True
                    # the same loop written with the two-argument iter(): `for _ in iter(<handle>.done, True): <get>`
                    if isinstance(n, ast.For) and isinstance(n.iter, ast.Call) and isinstance(n.iter.func, ast.Name) and n.iter.func.id == "iter" and len(n.iter.args) == 2 \
                            and isinstance(n.iter.args[0], ast.Attribute) and n.iter.args[0].attr == "done" and isinstance(n.iter.args[1], ast.Constant) and n.iter.args[1].value is True:
                        body_src = ast.unparse(ast.Module(body=n.body, type_ignores=[]))
                        if f"{qname}.get(" in body_src or f"{qname}.get_nowait(" in body_src:
                            drain_until_done = True
            # the drain loop POLLS: once the relay's last hand-off was taken nothing more arrives, so each get() blocks for its whole
            # timeout before done() is looked at again - close() returns that much later than the producer's last step. The poll
            # interval therefore has to be a small constant of its own, not the (arbitrarily large) ping interval, and never absent.
            for t in fins:
                for n in ast.walk(ast.Module(body=t.finalbody, type_ignores=[])):
                    is_drain = (isinstance(n, ast.While) and "done()" in ast.unparse(n.test)) or (isinstance(n, ast.For) and "done" in ast.unparse(n.iter))
                    if not is_drain:
                        continue
                    for g_ in ast.walk(ast.Module(body=n.body, type_ignores=[])):
                        if isinstance(g_, ast.Call) and isinstance(g_.func, ast.Attribute) and g_.func.attr == "get" and ast.unparse(g_.func.value) == qname:
                            to = next((k.value for k in g_.keywords if k.arg == "timeout"), g_.args[1] if len(g_.args) > 1 else None)
                            blk = next((k.value for k in g_.keywords if k.arg == "block"), g_.args[0] if g_.args else None)
                            if isinstance(blk, ast.Constant) and blk.value is False:
                                rep.ok("R6.3", "wsgi: the drain loop polls without blocking")
                            elif to is None:
                                rep.violation("R6.3", construct(rs, text=f"drain loop blocks in {qname}.get() without timeout"), where(rs, g_),
                                              "wsgi: the closing consumer's drain loop calls get() without a timeout: after the relay's last hand-off nothing arrives any more and close() never returns")
                            elif isinstance(to, ast.Constant) and isinstance(to.value, (int, float)) and not isinstance(to.value, bool) and 0 <= to.value <= 1:
                                rep.ok("R6.3", f"wsgi: the drain loop polls with a constant timeout of {to.value}s")
                            else:
                                rep.violation("R6.3", construct(rs, text=f"drain poll interval {ast.unparse(to)[:40]}"), where(rs, g_),
                                              f"wsgi: the closing consumer's drain loop polls with timeout={ast.unparse(to)[:40]}: after the relay's last hand-off the get() blocks for that whole time before "
                                              "done() is re-checked, so close() returns up to one such interval after the producer finished - the producer is released late (unbounded for a large ping interval)")
            # the drain loop ends when the relay is done (or was cancelled before it started), not when a clock says so: a relay that
            # is left running has its blocking put()s (next item, final None) still ahead and nobody takes them any more
            for t in fins:
                for n in ast.walk(ast.Module(body=t.finalbody, type_ignores=[])):
                    if not (isinstance(n, ast.While) and "done()" in ast.unparse(n.test)):
                        continue
                    for b_ in ast.walk(n):
                        if not isinstance(b_, (ast.Break, ast.Return)):
                            continue
                        q_ = getattr(b_, "_parent", None)
                        clock = None
                        while q_ is not None and q_ is not n:
                            if isinstance(q_, ast.If) and any(isinstance(c_, ast.Call) and ast.unparse(c_.func) in ("time.monotonic", "time.time", "time.perf_counter", "monotonic", "perf_counter") for c_ in ast.walk(q_.test)):
                                clock = q_
                            q_ = getattr(q_, "_parent", None)
                        if clock is not None and blocking:
                            rep.violation("R6.3", construct(rs, text=f"drain loop left on a deadline: if {ast.unparse(clock.test)[:40]}"), where(rs, b_),
                                          f"wsgi: the closing consumer's drain loop is left when `{ast.unparse(clock.test)[:50]}` although the relay is still running: a producer step that takes longer than "
                                          f"that leaves the relay with {len(blocking)} blocking {qname}.put() calls ahead and nobody draining - it blocks forever, the pool thread leaks and the user's generator is never closed", positive=True)
            # a wait for done() must not wait for a relay that is still QUEUED in the pool (all workers busy with other streams):
            # cancel() has to be tried first and its result has to end the wait
            hn = _handle_names(rs)
            for t in fins:
                for n in ast.walk(ast.Module(body=t.finalbody, type_ignores=[])):
                    if isinstance(n, ast.While) and any(isinstance(c_, ast.Call) and isinstance(c_.func, ast.Attribute) and c_.func.attr == "done" and isinstance(c_.func.value, ast.Name) and c_.func.value.id in hn for c_ in ast.walk(n.test)):
                        cancels_before = [c_ for c_ in calls_in(rs, deep=True) if isinstance(c_.func, ast.Attribute) and c_.func.attr == "cancel" and isinstance(c_.func.value, ast.Name) and c_.func.value.id in hn and c_.lineno <= n.lineno]
                        cancel_vars = {tt.id for a_ in ast.walk(rs.node) if isinstance(a_, ast.Assign) and any(c_ is a_.value for c_ in cancels_before) for tt in a_.targets if isinstance(tt, ast.Name)}
                        in_test = any(isinstance(x, ast.Name) and x.id in cancel_vars for x in ast.walk(n.test)) or any(c_ in list(ast.walk(n.test)) for c_ in cancels_before)
                        if not in_test:
                            # ... or the whole wait sits under `if not <cancel result>:`
                            from ..common import norm_guards as _ng0
                            in_test = any(pol is False and ((isinstance(t_, ast.Name) and t_.id in cancel_vars) or any(c_ is t_ for c_ in cancels_before)) for t_, pol in _ng0(n, rs.node))
                        if cancels_before and in_test:
                            rep.ok("R6.3", "wsgi: the wait for the relay is skipped when cancel() removed a relay that had not started (pool saturated)")
                        else:
                            rep.violation("R6.3", construct(rs, text="wait for a relay that may never start"), where(rs, n),
                                          "wsgi: the closing consumer waits until the relay future is done without first trying cancel(): a relay that is still queued behind other long-lived streams "
                                          "(every pool thread busy) never becomes done, so close() spins forever")
            if not joins:
                rep.ok("R6.3", "wsgi: the closing consumer does not wait for the relay thread without a timeout")
            elif not bounded or not blocking or drain_until_done:
                why = "the queue is unbounded" if not bounded else ("the relay's puts are non-blocking/timed" if not blocking else "the consumer keeps draining the queue until the relay thread is done")
                rep.ok("R6.3", f"wsgi: the join on the relay thread cannot deadlock: {why}")
            else:
                rep.violation("R6.3", construct(rs, text="join on the relay thread while its blocking put can still run"), where(rs, joins[0]),
                              f"wsgi: the closing consumer drains the bounded queue ({qname}, maxsize={ast.unparse(ms)}) once and then waits for the relay thread without a timeout, "
                              f"while the relay still has {len(blocking)} unconditional blocking {qname}.put() calls ahead (next item / final None): if the relay completes one more hand-off after the drain, "
                              "it blocks forever, close() never returns, the pool thread leaks and the user's generator is never closed")
        else:
            # asyncio: join only after cancel() returned False
            ok = False
            for j in joins:
                from ..common import norm_guards as _ng
                for t_, pol in _ng(j, rs.node):
                    # the guard is the cancel() call itself or a local that only ever holds its result
                    ds_ = defs_of(rs, t_) if isinstance(t_, ast.Name) else [t_]
                    if pol is False and ds_ and all(ast.unparse(d_).endswith(".cancel()") for d_ in ds_):
                        ok = True
            if joins and ok:
                rep.ok("R6.3", "asgi: the relay task's outcome is read only after cancel() returned False (task already finished; a pending task is cancelled, which interrupts a blocked put)")
            elif joins:
                rep.violation("R6.3", construct(rs, text="await of the relay task without cancel"), where(rs, joins[0]), "asgi: the closing consumer waits for the relay task's outcome without first cancelling it: a relay blocked in `await q.put` never finishes")
            else:
                cancels = [c for c in calls_in(rs) if isinstance(c.func, ast.Attribute) and c.func.attr == "cancel" and any(_in(c, t.finalbody) for t in fins)]
                if cancels:
                    rep.ok("R6.3", "asgi: the relay task is cancelled in the finally block")
                else:
                    rep.violation("R6.3", construct(rs, text="relay task never cancelled"), where(rs), "asgi: the relay task is neither cancelled nor awaited when the consumer stops")
        # the relay's own finally hands off the sentinel with a blocking put: the queue must have room,
        # i.e. the consumer must empty it before it cancels / waits (otherwise the relay never finishes)
        pfins = _finally_blocks(push)
        fin_puts = [c for c in blocking if any(_in(c, t.finalbody) for t in pfins)]
        if bounded and fin_puts:
            # asyncio: cancel() interrupts the relay (its finally then needs room for the sentinel); a pool future: cancel() of a
            # running relay does nothing and of a not-yet-started one removes it - only the joins wait for the thread
            settle_kinds = ("cancel", "exception", "result") if side == "asgi" else ("exception", "result")
            settle = [c for c in calls_in(rs) if isinstance(c.func, ast.Attribute) and c.func.attr in settle_kinds and any(_in(c, t.finalbody) for t in fins)]
            # statement ORDER, not line numbers: code spliced in from a private helper keeps the helper's line numbers
            _ord: Dict[int, int] = {}

            def _number(node: ast.AST) -> None:
                _ord[id(node)] = len(_ord)
                for ch in ast.iter_child_nodes(node):
                    _number(ch)
            _number(rs.node)
            _pos = lambda n_: _ord.get(id(n_), n_.lineno * 10000)  # noqa: E731
            first_settle = min((_pos(c) for c in settle), default=None)
            drains = []
            for t in fins:
                for n in ast.walk(ast.Module(body=t.finalbody, type_ignores=[])):
                    if isinstance(n, ast.While) and (f"{qname}.empty()" in ast.unparse(n.test) or "done()" in ast.unparse(n.test)):
                        bs = ast.unparse(ast.Module(body=n.body, type_ignores=[]))
                        if f"{qname}.get" in bs:
                            drains.append(n)
                    # the same drain written EAFP-style: `try: while True: q.get_nowait()  except <Empty>: pass`
                    if isinstance(n, ast.Try) and any("Empty" in ast.unparse(h.type) for h in n.handlers if h.type is not None) and len(n.body) == 1 and isinstance(n.body[0], ast.While) \
                            and isinstance(n.body[0].test, ast.Constant) and n.body[0].test.value is True and f"{qname}.get_nowait(" in ast.unparse(n.body[0]):
                        drains.append(n)
            # the drain moved into a private helper that is handed the queue: `self._drain_until_done(push_future, q)`
            for t in fins:
                for c in ast.walk(ast.Module(body=t.finalbody, type_ignores=[])):
                    if not isinstance(c, ast.Call) or not any(isinstance(a_, ast.Name) and a_.id == qname for a_ in c.args):
                        continue
                    try:
                        h = p.resolve_call(rs, c)
                    except Exception:
                        h = None
                    if not isinstance(h, FuncInfo) or not h.name.startswith("_"):
                        continue
                    i_ = next(i for i, a_ in enumerate(c.args) if isinstance(a_, ast.Name) and a_.id == qname)
                    hp_ = [x for x in h.params if x not in ("self", "cls")] if h.cls is not None and h.params[:1] in (["self"], ["cls"]) else list(h.params)
                    if i_ >= len(hp_):
                        continue
                    qn_ = hp_[i_]
                    for n in ast.walk(h.node):
                        if isinstance(n, ast.While) and (f"{qn_}.empty()" in ast.unparse(n.test) or "done()" in ast.unparse(n.test)) and f"{qn_}.get" in ast.unparse(ast.Module(body=n.body, type_ignores=[])):
                            drains.append(c)
            if drains and first_settle is not None and min(_pos(d) for d in drains) < first_settle:
                rep.ok("R6.3", f"{side}: the consumer empties the queue before it cancels/awaits the relay, so the relay's final {qname}.put(None) has room")
            else:
                rep.violation("R6.3", construct(rs, text="relay settled without emptying the queue first"), where(rs, settle[0] if settle else rs.node),
                              f"{side}: the relay's finally performs a blocking {qname}.put(None) on the bounded queue, but the consumer cancels/awaits the relay without emptying the queue first: "
                              "with the producer one item ahead the sentinel put blocks forever, the relay task/thread never finishes and the user's generator is never closed")
        # stop flag
        nonlocals = {nm for n in ast.walk(push.node) if isinstance(n, ast.Nonlocal) for nm in n.names}
        # the flag is a variable of the consumer that the relay reads: declared `nonlocal` in the relay (it also sets it at the end of
        # the producer), or a plain free variable of the relay (only read there) that the consumer assigns
        push_stores = {x.id for x in ast.walk(push.node) if isinstance(x, ast.Name) and isinstance(x.ctx, ast.Store)}
        rs_stores = {t_.id for n in walk_shallow(rs.node) if isinstance(n, (ast.Assign, ast.AnnAssign)) for t_ in (n.targets if isinstance(n, ast.Assign) else [n.target]) if isinstance(t_, ast.Name)}
        free_flags = rs_stores - push_stores
        tested = {x.id for n in ast.walk(push.node) if isinstance(n, ast.While) for x in ast.walk(n.test) if isinstance(x, ast.Name)} & (nonlocals | free_flags)
        flags = [n for n in ast.walk(ast.Module(body=[s for t in fins for s in t.finalbody], type_ignores=[])) if isinstance(n, ast.Assign) and len(n.targets) == 1 and isinstance(n.targets[0], ast.Name)
                 and n.targets[0].id in tested and isinstance(n.value, ast.Constant) and n.value.value is True]
        # the same flag kept in an Event object: `stop = threading.Event()` / `asyncio.Event()`; tested `while not stop.is_set()`, raised `stop.set()`
        events_ = {n.targets[0].id for n in walk_shallow(rs.node) if isinstance(n, ast.Assign) and len(n.targets) == 1 and isinstance(n.targets[0], ast.Name)
                   and isinstance(n.value, ast.Call) and ast.unparse(n.value.func).split(".")[-1] == "Event" and not n.value.args}
        ev_tested = {x.func.value.id for n in ast.walk(push.node) if isinstance(n, ast.While) for x in ast.walk(n.test)
                     if isinstance(x, ast.Call) and isinstance(x.func, ast.Attribute) and x.func.attr == "is_set" and isinstance(x.func.value, ast.Name) and x.func.value.id in events_}
        ev_raised = [c for c in ast.walk(ast.Module(body=[s for t in fins for s in t.finalbody], type_ignores=[])) if isinstance(c, ast.Call) and isinstance(c.func, ast.Attribute)
                     and c.func.attr == "set" and isinstance(c.func.value, ast.Name) and c.func.value.id in ev_tested]
        relay_tests = [ast.unparse(n.test) for n in ast.walk(push.node) if isinstance(n, ast.While) and not (isinstance(n.test, ast.Constant) and n.test.value is True)]
        # the flag handed to a stepping helper as a predicate: `for item in _steps_until(iterable, lambda: should_stop)` (the helper tests it
        # before every step - its loop is checked below as the relay loop)
        raised_names = {n.targets[0].id for n in ast.walk(ast.Module(body=[s_ for t in fins for s_ in t.finalbody], type_ignores=[])) if isinstance(n, ast.Assign) and len(n.targets) == 1
                        and isinstance(n.targets[0], ast.Name) and isinstance(n.value, ast.Constant) and n.value.value is True}
        via_predicate = False
        for lp_ in ast.walk(push.node):
            if isinstance(lp_, (ast.For, ast.AsyncFor)) and isinstance(lp_.iter, ast.Call):
                for a_ in lp_.iter.args:
                    if isinstance(a_, ast.Lambda) and isinstance(a_.body, ast.Name) and a_.body.id in raised_names:
                        try:
                            stepper = p.resolve_call(push, lp_.iter)
                        except Exception:
                            stepper = None
                        if isinstance(stepper, FuncInfo) and stepper.is_generator():
                            pidx = lp_.iter.args.index(a_)
                            pname = stepper.params[pidx] if pidx < len(stepper.params) else None
                            # the helper calls the predicate in the test of its stepping loop (before each step)
                            if pname and any(isinstance(w_, ast.While) and any(isinstance(c_, ast.Call) and isinstance(c_.func, ast.Name) and c_.func.id == pname for c_ in ast.walk(w_.test)) for w_ in ast.walk(stepper.node)):
                                via_predicate = True
                                rep.analysed(stepper.fq)
        if flags or ev_raised or via_predicate:
            rep.ok("R6.3", f"{side}: the consumer raises the stop flag in its finally and the relay loop tests it before every step")
        elif relay_tests and not tested and not ev_tested and not events_ and not nonlocals:
            rep.undecide("R6.3", f"{side}: the relay loop tests `{relay_tests[0][:50]}`, which is neither a nonlocal flag nor an Event of the consumer: how the relay is asked to stop is not recognised")
        else:
            rep.violation("R6.3", construct(rs, text="stop flag"), where(rs), f"{side}: the relay is not asked to stop (flag not set in finally or not tested by the relay loop)")
        # R6.4 single producer loop / consumer yields every item
        item_puts = [c for c in puts if not (c.args and isinstance(c.args[0], ast.Constant) and c.args[0].value is None)]
        from ..common import parents as _parents
        loops_with_put = {id(next((q_ for q_ in _parents(c) if isinstance(q_, (ast.While, ast.For, ast.AsyncFor))), None)) for c in item_puts}
        pulls = [c for c in calls_in(push, deep=True) if (isinstance(c.func, ast.Name) and c.func.id in ("next", "anext")) or (isinstance(c.func, ast.Attribute) and c.func.attr in ("__next__", "__anext__"))]
        if not pulls:
            # the pull may sit in a stepping generator the relay loop iterates (`for item in _steps(iterable, ...): q.put(item)`): its
            # single next() is the relay's pull, and the for loop hands on exactly what it yields
            for lp_ in ast.walk(push.node):
                if isinstance(lp_, (ast.For, ast.AsyncFor)) and isinstance(lp_.iter, ast.Call):
                    try:
                        g_ = p.resolve_call(push, lp_.iter)
                    except Exception:
                        g_ = None
                    if isinstance(g_, FuncInfo) and g_.is_generator():
                        gp = [c for c in calls_in(g_, deep=True) if (isinstance(c.func, ast.Name) and c.func.id in ("next", "anext")) or (isinstance(c.func, ast.Attribute) and c.func.attr in ("__next__", "__anext__"))]
                        gy = [n for n in ast.walk(g_.node) if isinstance(n, ast.Yield)]
                        if len(gp) == 1 and len(gy) == 1:
                            pulls = gp
        if len(loops_with_put) == 1 and len(item_puts) == 1 and len(pulls) == 1:
            rep.ok("R6.4", f"{side}: one producer loop with one put per item")
        else:
            rep.violation("R6.4", construct(push, text=f"{len(item_puts)} item puts / {len(pulls)} pulls"), where(push), f"{side}: items are pulled or handed off at more than one place (order/duplication not guaranteed)")
        gets = [n for n in ast.walk(rs.node) if isinstance(n, ast.Assign) and isinstance(n.targets[0], ast.Name) and f"{qname}.get(" in ast.unparse(n.value) and not any(_in(n, t.finalbody) for t in fins)]
        if len(gets) == 1:
            # a dequeue that is given up on a timeout (the ping) must really be given up: `wait_for(q.get(), t)` cancels the getter;
            # `wait_for(shield(q.get()), t)` or a getter task polled with `asyncio.wait(..., timeout=t)` leaves it queued in front,
            # where it swallows the next event
            for c_ in ast.walk(gets[0].value):
                if isinstance(c_, ast.Call) and ast.unparse(c_.func).split(".")[-1] in ("shield", "ensure_future", "create_task") and f"{qname}.get(" in ast.unparse(c_):
                    rep.violation("R6.4", construct(rs, text=f"dequeue kept alive by {ast.unparse(c_.func)}"), where(rs, c_),
                                  f"{side}: the dequeue is wrapped in {ast.unparse(c_.func)}(...): when the ping timeout fires the pending {qname}.get() stays queued and takes the NEXT event, "
                                  "which is then delivered to nobody (one event lost per ping)", positive=True)
            ev = gets[0].targets[0].id
            par = gets[0]._parent  # type: ignore[attr-defined]
            body = par.body if hasattr(par, "body") and gets[0] in par.body else []
            after = body[body.index(gets[0]) + 1:] if body else []
            src = ast.unparse(ast.Module(body=after, type_ignores=[]))
            # `if <ev> is None: break` then `yield <encoder>(<ev>, ...)` - the encoder being the shared function or a method that wraps it
            shape_ok = len(after) >= 2 and isinstance(after[0], ast.If) and ast.unparse(after[0].test) == f"{ev} is None" and len(after[0].body) == 1 and isinstance(after[0].body[0], ast.Break) \
                and not after[0].orelse and isinstance(after[1], ast.Expr) and isinstance(after[1].value, ast.Yield) and isinstance(after[1].value.value, ast.Call) \
                and any(isinstance(a_, ast.Name) and a_.id == ev for a_ in after[1].value.value.args) \
                and not any(isinstance(x, ast.Yield) for st_ in after[2:] for x in ast.walk(st_))
            if shape_ok or src.startswith(f"if {ev} is None:\n    break\nyield build_bytes_from_sse({ev}, self.charset)"):
                rep.ok("R6.4", f"{side}: every dequeued item is yielded exactly once; None ends the stream")
            else:
                rep.violation("R6.4", construct(rs, text="dequeue-to-yield"), where(rs, gets[0]), f"{side}: a dequeued event is not always yielded (or is yielded more than once) before the next dequeue")
        else:
            rep.violation("R6.4", construct(rs, text=f"{len(gets)} dequeue sites"), where(rs), f"{side}: events are dequeued at {len(gets)} places outside the final drain")
    rep.require_instances("R6.3", 5)
    rep.require_instances("R6.4", 6)

    # ---------------------------------------------------------------- R6.5 - R6.7 shared streaming rules
    from .stream_common import closed_flag_provenance, relay_put_never_drops, send_failures_propagate

    from .c11 import denial_receive_rule  # the receive channel a streaming denial response runs under (websocket.disconnect -> http.disconnect)

    for rule, fnc, least in (("R6.5", send_failures_propagate, 10), ("R6.6", closed_flag_provenance, 2), ("R6.7", relay_put_never_drops, 2), ("R6.8", denial_receive_rule, 1)):
        for kind, fn_, node, cons, msg in fnc(p):
            if kind == "ok":
                rep.analysed(fn_.fq)
                rep.ok(rule, msg)
            elif kind == "undecided":
                rep.undecide(rule, msg)
            else:
                rep.violation(rule, construct(fn_, text=cons), where(fn_, node), msg)
        rep.require_instances(rule, least)


def _handle_names(fn: FuncInfo) -> Set[str]:
    """locals bound to a background handle: x = asyncio.ensure_future(...) / x = <pool>.submit(...)"""
    out = set()
    for n in walk_shallow(fn.node):
        if isinstance(n, (ast.Assign, ast.AnnAssign)) and isinstance(n.value, ast.Call):
            f = n.value.func
            if (isinstance(f, ast.Attribute) and f.attr in ("ensure_future", "create_task", "submit")) or (isinstance(f, ast.Name) and f.id in ("ensure_future", "create_task")):
                for t in (n.targets if isinstance(n, ast.Assign) else [n.target]):
                    if isinstance(t, ast.Name):
                        out.add(t.id)
    return out


def _guards(node: ast.AST, fn: FuncInfo):
    from ..common import guards_of

    return guards_of(node, fn.node)
