"""One iteration of the event loop of a multipart stream helper, as paths.

The rules of C01/R1.4 and C15/R15.1,3,5 say what must happen FOR AN EVENT of a given kind in a given state ("a Data event
while no file is open: its bytes are appended to the field buffer, counted, and the count is compared with the limit";
"the last Data event of an upload: rewind, append, release the slot, count the part"). They are decided here on the
paths of one iteration - the statements that handle one decoder event - analysed by the flow engine as a function of
the loop's variables. What the code looks like (elif chain, guard clauses with `continue`, a local for `event.data`, Field
and File handled in one branch, the events pulled from a private generator) does not matter; what each path DOES does:

  classes     the event classes the path can be taken for (from its isinstance facts)
  file_none   what the path knows about the upload slot on entry (`file is None` fact), more_data likewise
  effects     the ordered calls / rebindings of the loop variables / raises, as role-named terms

Variables are identified by role (mp_common._roles), not by name.
"""
from __future__ import annotations

import ast
import copy
from dataclasses import dataclass, field
from typing import Dict, FrozenSet, List, Optional, Tuple

from ..collect import default_inline, run_paths
from ..flow import NONE, Value, show, subterms
from ..loader import AnalysisError, FuncInfo, Program, walk_shallow

TERMINAL = frozenset({"Epilogue", "NeedData"})
VOC = {"awrite": "write", "aseek": "seek", "aclose": "close"}


@dataclass
class IterPath:
    exit: str  # continues | left | returns | raises
    raised: Optional[str]
    classes: FrozenSet[str]
    file_none: Optional[bool]
    more_data: Optional[bool]
    effects: List[Tuple[str, str, Value]]  # (kind, text, term): call | local | raise | yield
    facts: List[Tuple[Value, bool]]
    final: Dict[str, Value] = field(default_factory=dict)  # last value bound to a loop variable on the path

    def calls(self, text: str) -> List[int]:
        return [i for i, (k, t, _v) in enumerate(self.effects) if k == "call" and t == text]

    def fact_text(self) -> List[str]:
        return sorted(("" if t else "not ") + show(f) for f, t in self.facts)


@dataclass
class Iteration:
    fn: FuncInfo
    paths: List[IterPath]
    roles: Dict[str, str]
    event_classes: List[str]
    source: str  # how the events are obtained
    problems: List[str]  # why the loop could not be (fully) understood


class _Undecided(Exception):
    pass


def event_classes(p: Program) -> List[str]:
    mp = p.module("baize.multipart")
    ev = p.cls("baize.multipart:Event")
    return sorted(c.name for c in mp.classes.values() if c.name != "Event" and ev in p.mro(c))


def _is_next_event(e: ast.AST) -> bool:
    if isinstance(e, ast.Await):
        e = e.value
    return isinstance(e, ast.Call) and isinstance(e.func, ast.Attribute) and e.func.attr == "next_event" and not e.args


def _terminal_test(test: ast.expr, evname: Optional[str]) -> Optional[Tuple[str, ast.expr]]:
    """`not isinstance(<event or event := next_event()>, (<classes>))` -> (event variable, classes expression)"""
    if isinstance(test, ast.UnaryOp) and isinstance(test.op, ast.Not) and isinstance(test.operand, ast.Call) and isinstance(test.operand.func, ast.Name) \
            and test.operand.func.id == "isinstance" and len(test.operand.args) == 2:
        a0 = test.operand.args[0]
        if isinstance(a0, ast.NamedExpr) and isinstance(a0.target, ast.Name) and _is_next_event(a0.value):
            return a0.target.id, test.operand.args[1]
        if isinstance(a0, ast.Name) and (evname is None or a0.id == evname):
            return a0.id, test.operand.args[1]
    return None


def _find_loop(p: Program, fn: FuncInfo):
    """(loop node, handling statements, event variable, generator helper or None, classes the loop test excludes or None)"""
    pending_problem = None
    for lp in ast.walk(fn.node):
        if not isinstance(lp, (ast.While, ast.For, ast.AsyncFor)):
            continue
        for i, st in enumerate(lp.body):
            if isinstance(st, ast.Assign) and len(st.targets) == 1 and isinstance(st.targets[0], ast.Name) and _is_next_event(st.value):
                ev = st.targets[0].id
                if i == 0:
                    return lp, lp.body[1:], ev, None, None
                # rotated loop: `ev = next_event()` before the loop and as the last statement of its body, the test excludes the
                # terminal events
                if i == len(lp.body) - 1 and isinstance(lp, ast.While) and not lp.orelse:
                    tt = _terminal_test(lp.test, ev)
                    par = getattr(lp, "_parent", None)
                    blk = next((getattr(par, f_) for f_ in ("body", "orelse", "finalbody") if isinstance(getattr(par, f_, None), list) and lp in getattr(par, f_)), None)
                    prev = blk[blk.index(lp) - 1] if blk and blk.index(lp) > 0 else None
                    if tt is not None and isinstance(prev, ast.Assign) and len(prev.targets) == 1 and isinstance(prev.targets[0], ast.Name) and prev.targets[0].id == ev and _is_next_event(prev.value) \
                            and not any(isinstance(x, ast.Continue) for x in ast.walk(ast.Module(body=lp.body, type_ignores=[]))):
                        return lp, lp.body[:-1], ev, None, tt[1]
                pending_problem = "statements before the event is fetched"
        if isinstance(lp, ast.While) and not lp.orelse:
            tt = _terminal_test(lp.test, None)
            if tt is not None and isinstance(lp.test.operand.args[0], ast.NamedExpr):
                return lp, lp.body, tt[0], None, tt[1]
        if isinstance(lp, (ast.For, ast.AsyncFor)) and isinstance(lp.target, ast.Name) and isinstance(lp.iter, ast.Call):
            try:
                g = p.resolve_call(fn, lp.iter)
            except Exception:
                g = None
            if isinstance(g, FuncInfo) and g.is_generator() and default_inline(g) and any(_is_next_event(n) for n in ast.walk(g.node)):
                return lp, lp.body, lp.target.id, g, None
            # an explicit iterator object of a private class whose __next__ fetches the events and raises StopIteration at a terminal one
            from ..loader import ClassInfo as _CI
            if isinstance(g, _CI) and g.name.startswith("_") and "__next__" in dict.keys(g.methods) and any(_is_next_event(n) for n in ast.walk(g.methods["__next__"].node)):
                return lp, lp.body, lp.target.id, _IterClass(g), None
        if isinstance(lp, ast.While) and isinstance(lp.test, ast.NamedExpr) and _is_next_event(lp.test.value):
            raise _Undecided("event fetched in the loop test")
    raise _Undecided(pending_problem or "no loop that fetches decoder events with next_event()")


class _IterClass:
    """a private iterator class used as the event source (stands where the generator helper stands)"""

    def __init__(self, ci) -> None:
        self.ci = ci
        self.name = ci.name


class _Exits(ast.NodeTransformer):
    """break / continue / return of the event loop become returns of the iteration function that say which it was"""

    def visit_FunctionDef(self, node):
        return node

    visit_AsyncFunctionDef = visit_Lambda = visit_ClassDef = visit_FunctionDef

    def visit_For(self, node):
        # break/continue inside a nested loop belong to that loop; returns still leave the helper
        node.body = [_Returns().visit(s) for s in node.body]
        node.orelse = [_Returns().visit(s) for s in node.orelse]
        return node

    visit_While = visit_AsyncFor = visit_For

    def visit_Break(self, node):
        return ast.copy_location(ast.Return(value=ast.Constant(value="__LEFT__")), node)

    def visit_Continue(self, node):
        return ast.copy_location(ast.Return(value=ast.Constant(value="__CONTINUES__")), node)

    def visit_Return(self, node):
        return ast.copy_location(ast.Return(value=ast.Constant(value="__RETURNS__")), node)


class _Returns(ast.NodeTransformer):
    def visit_FunctionDef(self, node):
        return node

    visit_AsyncFunctionDef = visit_Lambda = visit_ClassDef = visit_FunctionDef

    def visit_Return(self, node):
        return ast.copy_location(ast.Return(value=ast.Constant(value="__RETURNS__")), node)


def _synth(fn: FuncInfo, stmts: List[ast.stmt], rename: Dict[str, str], is_async: bool, is_gen_ok: bool, prologue: Optional[List[ast.stmt]] = None, excluded: Optional[ast.expr] = None, evname: str = "event") -> FuncInfo:
    body = [copy.deepcopy(s) for s in stmts]
    if excluded is not None:
        # the loop test has already excluded these classes: say so with a guard the engine turns into a fact
        guard = ast.If(test=ast.Call(func=ast.Name(id="isinstance", ctx=ast.Load()), args=[ast.Name(id=evname, ctx=ast.Load()), copy.deepcopy(excluded)], keywords=[]),
                       body=[ast.Break()], orelse=[])
        body = [guard] + body
    pro = [copy.deepcopy(s) for s in (prologue or [])]
    for s in body:
        for n in ast.walk(s):
            if hasattr(n, "_parent"):
                try:
                    delattr(n, "_parent")
                except Exception:
                    pass
    body = [_Exits().visit(s) for s in body]
    body = pro + body
    body.append(ast.Return(value=ast.Constant(value="__CONTINUES__")))
    own = set(fn.params) | {n.id for n in ast.walk(fn.node) if isinstance(n, ast.Name) and isinstance(n.ctx, ast.Store)}
    mod = ast.Module(body=body, type_ignores=[])
    own |= {n.id for n in ast.walk(mod) if isinstance(n, ast.Name) and "__" in n.id and not n.id.startswith("__")}  # symbolic holder attributes of the prologue
    assigned_in_prologue = {t.id for st_ in pro for t in ast.walk(st_) if isinstance(t, ast.Name) and isinstance(t.ctx, ast.Store)}
    used = sorted({n.id for n in ast.walk(mod) if isinstance(n, ast.Name) and n.id in own and n.id not in assigned_in_prologue})
    for n in ast.walk(mod):
        if isinstance(n, ast.Name) and n.id in rename and n.id in own:
            n.id = rename[n.id]
    params = sorted({rename.get(u, u) for u in used})
    args = ast.arguments(posonlyargs=[], args=[ast.arg(arg=a) for a in params], vararg=None, kwonlyargs=[], kw_defaults=[], kwarg=None, defaults=[])
    cls_ = ast.AsyncFunctionDef if is_async else ast.FunctionDef
    node = cls_(name="_iteration", args=args, body=body, decorator_list=[], returns=None, type_comment=None)
    ast.copy_location(node, stmts[0] if stmts else fn.node)
    ast.fix_missing_locations(node)
    from ..loader import set_parents
    set_parents(node)
    fi = FuncInfo("_iteration", fn.qualname + "._iteration", fn.module, node, cls=None, parent=None)
    fi._prologue_ids = {id(x) for st_ in pro for x in ast.walk(st_)}  # type: ignore[attr-defined]
    return fi


def _classes_of(x: Value) -> Optional[List[str]]:
    if x[0] == "cls":
        return [x[1].split(":")[-1]]
    if x[0] == "tuple":
        out: List[str] = []
        for y in x[1]:
            c = _classes_of(y)
            if c is None:
                return None
            out += c
        return out
    return None


def _role_text(t: str) -> str:
    t = t.replace("await ", "")
    for a, b in VOC.items():
        t = t.replace("." + a + "(", "." + b + "(")
    return t


def _holders(p: Program, fn: FuncInfo, loop: ast.AST):
    """locals of the helper that hold an instance of a private class of the module, created before the event loop:
    [(name, ClassInfo, constructor call)]"""
    out = []
    inside = {id(n) for n in ast.walk(loop)}
    for n in walk_shallow(fn.node):
        tgt = val = None
        if isinstance(n, ast.Assign) and len(n.targets) == 1:
            tgt, val = n.targets[0], n.value
        elif isinstance(n, ast.AnnAssign) and n.value is not None:
            tgt, val = n.target, n.value
        if isinstance(tgt, ast.Name) and isinstance(val, ast.Call) and id(n) not in inside:
            try:
                r = p.resolve_call(fn, val)
            except Exception:
                r = None
            from ..loader import ClassInfo
            if isinstance(r, ClassInfo) and r.name.startswith("_") and not r.name.startswith("__") and r.module is fn.module:
                out.append((tgt.id, r, val))
    return out


def _holder_prologue(p: Program, name: str, ci, ctor: ast.Call) -> List[ast.stmt]:
    """`h = _C(args)` followed by `h.attr = h__attr` for every attribute that __init__ sets to something that is not one of
    its parameters (a count starting at 0, an empty buffer, None): inside ONE iteration those attributes hold whatever the
    previous iterations left there - a symbolic value - while attributes copied from the constructor's arguments (the limits)
    are those arguments."""
    pro: List[ast.stmt] = [ast.Assign(targets=[ast.Name(id=name, ctx=ast.Store())], value=copy.deepcopy(ctor), type_comment=None)]
    init = p.find_method(ci, "__init__")
    if init is None:
        # a (data)class without written __init__: the fields the constructor call does not give start from their defaults and
        # hold, inside one iteration, whatever the previous iterations left there
        fields = list(ci.ann.keys())
        given = set(fields[:len(ctor.args)]) | {k.arg for k in ctor.keywords if k.arg}
        for f_ in fields:
            if f_ not in given and f_ in ci.attrs:
                pro.append(ast.Assign(targets=[ast.Attribute(value=ast.Name(id=name, ctx=ast.Load()), attr=f_, ctx=ast.Store())],
                                      value=ast.Name(id=f"{name}__{f_}", ctx=ast.Load()), type_comment=None))
        return pro
    params = set(init.params[1:])
    for n in ast.walk(init.node):
        tg = val = None
        if isinstance(n, ast.Assign) and len(n.targets) == 1:
            tg, val = n.targets[0], n.value
        elif isinstance(n, ast.AnnAssign) and n.value is not None:
            tg, val = n.target, n.value
        if isinstance(tg, ast.Attribute) and isinstance(tg.value, ast.Name) and tg.value.id == init.params[0]:
            if isinstance(val, ast.Name) and val.id in params:
                continue
            pro.append(ast.Assign(targets=[ast.Attribute(value=ast.Name(id=name, ctx=ast.Load()), attr=tg.attr, ctx=ast.Store())],
                                  value=ast.Name(id=f"{name}__{tg.attr}", ctx=ast.Load()), type_comment=None))
    return pro


def _subst(t, mapping):
    if isinstance(t, tuple):
        if t in mapping:
            return mapping[t]
        return tuple(_subst(x, mapping) for x in t)
    return t


def _infer_roles(paths, params: List[str]) -> Dict[str, str]:
    """roles of the iteration function's variables from what is done with them (for variables that _roles could not name:
    attributes of a holder object)"""
    roles: Dict[str, str] = {}
    EVD = ("attr", ("param", "event"), "data")
    for pa in paths:
        for e in pa.events:
            if e.kind == "call" and e.a[0] == "attr" and e.a[1][0] == "param":
                P, m = e.a[1][1], e.a[2]
                if m in ("write", "awrite", "seek", "aseek"):
                    roles.setdefault(P, "file")
                elif m in ("extend", "append") and e.b and e.b[0] == EVD:
                    roles.setdefault(P, "data")
                elif m == "append" and e.b and e.b[0][0] == "tuple" and len(e.b[0][1]) == 2:
                    roles.setdefault(P, "items")
            if e.kind == "call" and e.a == ("func", "baize.utils:safe_decode") and e.b:
                for t in subterms(e.b[0]):
                    if t[0] == "param" and t[1] in params:
                        roles.setdefault(t[1], "data")
            if e.kind in ("local", "store"):
                nm = e.a if e.kind == "local" else None
                val = e.b
                if nm and val == ("attr", ("param", "event"), "name"):
                    roles.setdefault(nm, "field_name")
                if nm and val[0] == "call" and val[1] == ("param", "file_factory"):
                    roles.setdefault(nm, "file")
                if nm and val[0] == "binop" and val[1] == "Add" and ("param", nm) in (val[2], val[3]):
                    other = val[3] if val[2] == ("param", nm) else val[2]
                    if other == ("const", 1):
                        roles.setdefault(nm, "form_parts_count")
                    elif other[0] == "call" and other[1] == ("builtin", "len") and other[2] == (EVD,):
                        roles.setdefault(nm, "form_memory_size_count")
    return roles


def iteration(p: Program, fn: FuncInfo) -> Iteration:
    from .mp_common import _roles

    all_classes = event_classes(p)
    problems: List[str] = []
    try:
        lp, stmts, evname, gen, excluded = _find_loop(p, fn)
    except _Undecided as e:
        return Iteration(fn, [], {}, all_classes, "?", [str(e)])
    roles = dict(_roles(fn))
    roles[evname] = "event"
    is_async = isinstance(fn.node, ast.AsyncFunctionDef)
    holders = _holders(p, fn, lp)
    prologue: List[ast.stmt] = []
    for hname, hci, hctor in holders:
        prologue += _holder_prologue(p, hname, hci, hctor)
    synth = _synth(fn, stmts, roles, is_async, False, prologue, excluded, evname)
    watch = sorted(set(synth.params) | {roles.get(h[0], h[0]) for h in holders})
    paths, col, it = run_paths(p, synth, None, record_locals=watch, depth=5)
    # what the prologue did (creating the holder objects, seeding their attributes) is not part of the iteration
    pro_ids = getattr(synth, "_prologue_ids", set())
    if pro_ids:
        for pa in paths:
            k = 0
            for e in pa.events:
                node_, _f = col.nodes.get(e.tag, (None, None))
                if (node_ is not None and id(node_) in pro_ids) or e.depth > 0:
                    k += 1
                else:
                    break
            pa.events = pa.events[k:]
    # attribute stores on a holder object are rebindings of the symbolic variable that stands for that attribute
    hold_cls = {hci.fq: roles.get(hname, hname) for hname, hci, _c in holders}
    for pa in paths:
        for e in pa.events:
            if e.kind == "store" and e.a[0] == "attr" and e.a[1][0] == "obj" and e.a[1][1] in hold_cls:
                e.kind, e.a = "local", f"{hold_cls[e.a[1][1]]}__{e.a[2]}"
    inferred = _infer_roles(paths, list(synth.params) + [e.a for pa in paths for e in pa.events if e.kind == "local"])
    have = set(roles.values())
    mapping = {}
    for nm, role in inferred.items():
        if nm != role and role not in have and role not in synth.params:
            mapping[("param", nm)] = ("param", role)
            roles[nm] = role
    # the limits: a holder attribute copied from a limit parameter IS that parameter (the prologue passed it through)
    for pa in paths:
        if mapping:
            pa.events = [type(e)(e.kind, (mapping.get(("param", e.a), ("param", e.a))[1] if e.kind == "local" and isinstance(e.a, str) else _subst(e.a, mapping)),
                                 _subst(e.b, mapping) if e.b is not None else None, _subst(e.c, mapping) if e.c is not None else None, e.tag, e.depth) for e in pa.events]
            pa.facts = frozenset((_subst(f, mapping), t) for f, t in pa.facts)
            pa.value = _subst(pa.value, mapping) if isinstance(pa.value, tuple) else pa.value
    EV = ("param", "event")
    FILE = ("param", "file")
    out: List[IterPath] = []
    for pa in paths:
        cl = set(all_classes)
        file_none: Optional[bool] = None
        more: Optional[bool] = None
        for f, t in pa.facts:
            if f[0] == "call" and f[1] == ("builtin", "isinstance") and len(f[2]) == 2 and f[2][0] == EV:
                names = _classes_of(f[2][1])
                if names is None:
                    problems.append(f"isinstance test against {show(f[2][1])[:40]}")
                    continue
                cl = (cl & set(names)) if t else (cl - set(names))
            elif f[0] == "cmp" and f[1] == "Is" and f[2] == FILE and f[3] == NONE:
                file_none = t
            elif f == FILE:
                file_none = not t
            elif f == ("attr", EV, "more_data"):
                more = t
        effects: List[Tuple[str, str, Value]] = []
        final: Dict[str, Value] = {}
        for e in pa.events:
            if e.kind == "call":
                term = ("call", e.a, e.b, e.c, 0)
                effects.append(("call", _role_text(show(term)), term))
            elif e.kind == "local":
                effects.append(("local", e.a, e.b))
                final[e.a] = e.b
            elif e.kind == "raise":
                effects.append(("raise", _role_text(show(e.a)), e.a))
            elif e.kind in ("yield", "yield_from"):
                effects.append((e.kind, _role_text(show(e.a)), e.a))
            elif e.kind in ("store", "delete"):
                effects.append((e.kind, _role_text(show(e.a)), e.b))
        if pa.exit == "raise":
            ex, raised = "raises", str(pa.value)
        else:
            v = pa.value
            tag = v[1] if v[0] == "const" else None
            ex = {"__CONTINUES__": "continues", "__LEFT__": "left", "__RETURNS__": "returns"}.get(tag, "continues")
            raised = None
        out.append(IterPath(ex, raised, frozenset(cl), file_none, more, effects, list(pa.facts), final))
    source = "event = parser.next_event() at the top of the loop"
    if excluded is not None:
        source = "event fetched by the loop's own test / rotation (terminal events end the loop)"
    if isinstance(gen, _IterClass):
        source = f"events pulled from the iterator object {gen.name}(...)"
        problems += _check_iter_class(p, gen.ci, all_classes)
    elif gen is not None:
        source = f"events pulled from the generator {gen.name}()"
        problems += _check_generator(p, gen, all_classes)
    return Iteration(fn, out, roles, all_classes, source, problems)


def _check_iter_class(p: Program, ci, all_classes: List[str]) -> List[str]:
    """__next__ of the iterator class: every path fetches exactly one event; a non-terminal event is RETURNED (handed on), a terminal
    one raises StopIteration (ends the for loop) - and nothing else happens to the events"""
    nx = ci.methods["__next__"]
    try:
        paths, col, it = run_paths(p, nx, ci)
    except Exception as e:
        return [f"{ci.name}.__next__: not analysable ({e})"]
    bad: List[str] = []
    for pa in paths:
        fetched = [e for e in pa.events if e.kind == "call" and e.a[0] == "attr" and e.a[2] == "next_event"]
        if len(fetched) != 1:
            bad.append(f"{ci.name}.__next__: a path fetches {len(fetched)} events")
            continue
        EVT = ("call", fetched[0].a, fetched[0].b, fetched[0].c, fetched[0].tag)
        cl = set(all_classes)
        for f, t in pa.facts:
            if f[0] == "call" and f[1] == ("builtin", "isinstance") and len(f[2]) == 2 and f[2][0][:4] == EVT[:4]:
                names = _classes_of(f[2][1])
                if names is not None:
                    cl = (cl & set(names)) if t else (cl - set(names))
        if cl - TERMINAL:
            if not (pa.exit == "return" and pa.value[:4] == EVT[:4]):
                bad.append(f"{ci.name}.__next__: a {sorted(cl - TERMINAL)} event is not handed on ({pa.exit} {pa.value if pa.exit == 'raise' else ''})")
        else:
            if not (pa.exit == "raise" and pa.value == "StopIteration"):
                bad.append(f"{ci.name}.__next__: a terminal event does not end the iteration")
    return bad


def _check_generator(p: Program, g: FuncInfo, all_classes: List[str]) -> List[str]:
    """The private generator must hand on every non-terminal event exactly once, in order, and stop at a terminal one."""
    try:
        lp, stmts, evname, inner, excluded = _find_loop(p, g)
    except _Undecided as e:
        return [f"{g.name}: {e}"]
    if inner is not None:
        return [f"{g.name}: nested generator"]
    synth = _synth(g, stmts, {evname: "event"}, isinstance(g.node, ast.AsyncFunctionDef), True, None, excluded, evname)
    paths, col, it = run_paths(p, synth, None)
    EV = ("param", "event")
    bad: List[str] = []
    for pa in paths:
        cl = set(all_classes)
        for f, t in pa.facts:
            if f[0] == "call" and f[1] == ("builtin", "isinstance") and len(f[2]) == 2 and f[2][0] == EV:
                names = _classes_of(f[2][1])
                if names is not None:
                    cl = (cl & set(names)) if t else (cl - set(names))
        ys = [e for e in pa.events if e.kind == "yield"]
        tag = pa.value[1] if pa.exit == "return" and pa.value[0] == "const" else None
        if cl - TERMINAL:
            if not (len(ys) == 1 and ys[0].a == EV and tag == "__CONTINUES__"):
                bad.append(f"{g.name}: a {sorted(cl - TERMINAL)} event is not handed on exactly once (yields {len(ys)}, then {tag})")
        else:
            if ys:
                bad.append(f"{g.name}: a terminal event is handed on")
    return bad


# ----------------------------------------------------------------------------- the per-event obligations
Finding = Tuple[str, str, str, str]  # (rule, kind ok|violation|undecided, construct text, message)


def _limit_facts(pa: IterPath, counter: str, limit: str):
    """comparisons of (something derived from) the counter with the limit parameter on the path: (op, counter-side term, truth)"""
    out = []
    C, L = ("param", counter), ("param", limit)
    for f, t in pa.facts:
        if f[0] == "cmp" and f[1] in ("Gt", "GtE", "Lt", "LtE", "Eq"):
            a, b = f[2], f[3]
            if b == L and any(x == C for x in subterms(a)):
                out.append((f[1], a, t))
            elif a == L and any(x == C for x in subterms(b)):
                flip = {"Gt": "Lt", "GtE": "LtE", "Lt": "Gt", "LtE": "GtE", "Eq": "Eq"}[f[1]]
                out.append((flip, b, t))
    return out


def _limit_none(pa: IterPath, limit: str) -> Optional[bool]:
    L = ("param", limit)
    for f, t in pa.facts:
        if f[0] == "cmp" and f[1] == "Is" and f[2] == L and f[3] == NONE:
            return t
    return None


def helper_rules(p: Program, name: str, fn: FuncInfo) -> List[Finding]:
    out: List[Finding] = []
    it = iteration(p, fn)
    if not it.paths:
        return [("R1.4", "undecided", "", f"{name}: event loop not understood: {'; '.join(it.problems)}"), ("R15.1", "undecided", "", f"{name}: event loop not understood: {'; '.join(it.problems)}")]
    for pr in it.problems:
        out.append(("R1.4", "undecided", "", f"{name}: {pr}"))
    from_gen = it.source.startswith("events pulled")

    def ok(rule, msg):
        out.append((rule, "ok", "", f"{name}: {msg}"))

    def bad(rule, cons, msg):
        if not any(o[0] == rule and o[1] == "violation" and o[2] == cons for o in out):
            out.append((rule, "violation", cons, f"{name}: {msg}"))

    def und(rule, msg):
        if not any(o[0] == rule and o[1] == "undecided" and o[3] == f"{name}: {msg}" for o in out):
            out.append((rule, "undecided", "", f"{name}: {msg}"))

    paths = it.paths
    # `not file` / `if file:` is read as `file is None` / `is not None` (see iteration()): that reading is only right while the
    # repository's upload class has no truth value of its own - with a __bool__/__len__ a falsy upload object (empty filename,
    # empty file) is taken for "no upload open" and its bytes go to the field buffer
    FILE_ = ("param", "file")
    if any(f == FILE_ for pa in paths for f, _t in pa.facts):
        try:
            up = p.cls("baize.datastructures:UploadFile")
        except Exception:
            up = None
        if up is None:
            und("R1.4", "the upload slot is tested by truthiness and the upload class UploadFile was not found")
        else:
            for dn in ("__bool__", "__len__"):
                m_ = p.find_method(up, dn)
                if m_ is not None:
                    bad("R1.4", f"truthiness of the upload slot with UploadFile.{dn}",
                        f"the upload slot is tested by truthiness (`not file`) although UploadFile defines {dn} ({m_.fq}): an upload object that is falsy (e.g. empty filename) "
                        "is handled as if no upload were open - its bytes are buffered and decoded as a text field and the file object is dropped")
            if not any(p.find_method(up, dn) for dn in ("__bool__", "__len__")):
                ok("R1.4", "the upload slot is tested by truthiness and UploadFile defines neither __bool__ nor __len__")
    if from_gen:
        # terminal events never reach the handling code
        paths = [pa for pa in paths if pa.classes - TERMINAL]
        for pa in paths:
            pa.classes = frozenset(pa.classes - TERMINAL)

    # ---- every event class has its handling; terminal events end the loop, others do not
    for K in it.event_classes:
        if K in TERMINAL:
            if from_gen:
                continue
            ps = [pa for pa in paths if K in pa.classes]
            if any(pa.exit == "continues" for pa in ps):
                bad("R1.4", f"event class {K} unhandled", f"has no isinstance branch for the decoder event {K}: the loop goes on asking for events after {K}")
            elif any(k != "call" or "isinstance(" not in t for pa in ps for k, t, _v in pa.effects):
                bad("R1.4", f"effects on {K}", f"does something on a {K} event before leaving the loop")
            else:
                ok("R1.4", f"{K} ends the event loop")
        elif K == "Preamble":
            ps = [pa for pa in paths if pa.classes == frozenset({K})] or [pa for pa in paths if K in pa.classes]
            if all(all(k == "call" and "isinstance(" in t for k, t, _v in pa.effects) and pa.exit == "continues" for pa in ps if pa.classes == frozenset({K})):
                ok("R1.4", "Preamble is deliberately ignored (no effect)")
        else:
            if not any(pa.classes == frozenset({K}) for pa in paths):
                bad("R1.4", f"event class {K} unhandled", f"has no isinstance branch for the decoder event {K}")
    for pa in paths:
        if pa.classes and not (pa.classes & TERMINAL) and pa.exit in ("left", "returns"):
            bad("R1.4", "loop left on a non-terminal event", f"the event loop is left on a {sorted(pa.classes)} event: the events that follow in the same chunk are not processed")

    def exactly(pa: IterPath, text: str) -> Optional[int]:
        c = pa.calls(text)
        return c[0] if len(c) == 1 else None

    def local_events(pa: IterPath, nm: str):
        return [(i, v) for i, (k, t, v) in enumerate(pa.effects) if k == "local" and t == nm]

    EXT, WR = "data.extend(event.data)", "file.write(event.data)"
    APPF, CLR = "items.append((field_name, safe_decode(data, charset)))", "data.clear()"
    DEC = "safe_decode(data, charset)"
    # the field buffer may be a list of chunks joined at the flush instead of a bytearray: same obligations, other spelling
    if any(t == "data.append(event.data)" for pa in paths for k, t, _v in pa.effects if k == "call"):
        EXT = "data.append(event.data)"
        APPF, DEC = "items.append((field_name, safe_decode(b''.join(data), charset)))", "safe_decode(b''.join(data), charset)"
    SEEK, APPU = "file.seek(0)", "items.append((field_name, file))"
    data_paths = [pa for pa in paths if pa.classes == frozenset({"Data"})]
    mixed = [pa for pa in paths if "Data" in pa.classes and pa.classes != frozenset({"Data"}) and not (pa.classes <= TERMINAL | {"Data"} and pa.exit != "continues")]
    if not data_paths:
        bad("R1.4", f"missing: {EXT}", f"field data of every Data event is accumulated - the statement `{EXT}` is gone (no path handles Data events)")
    seen = {"ext": 0, "wr": 0, "flushf": 0, "flushu": 0}
    for pa in data_paths:
        # paths that raise stop where the limit was crossed: what they did before still has to follow the rules, what comes after is moot
        raising = pa.exit == "raises"
        n_ext, n_wr = len(pa.calls(EXT)), len(pa.calls(WR))
        anyext = [t for k, t, _v in pa.effects if k == "call" and (t.startswith("data.extend(") or t.startswith("data.append("))]
        anywr = [t for k, t, _v in pa.effects if k == "call" and t.startswith("file.write(")]
        if pa.file_none is True or pa.file_none is None:
            if pa.file_none is None and (n_ext or n_wr):
                bad("R1.4", f"{EXT if n_ext else WR} not under file is None", f"`{EXT if n_ext else WR}` is no longer guarded by the state of the upload slot (`file is None`)")
            elif pa.file_none is True:
                if n_ext == 1 and not anywr and len(anyext) == 1:
                    seen["ext"] += 1
                elif not n_ext and not anyext:
                    bad("R1.4", f"missing: {EXT}" if pa.more_data is not False else f"{EXT} under not (event.more_data)", f"field data of every Data event is accumulated - a Data event of a field{' that is not the last one' if pa.more_data else ''} is not appended to the field buffer")
                else:
                    bad("R1.4", f"field data: {anyext + anywr}", f"a Data event of a field does not append exactly its own bytes to the field buffer once (got {anyext + anywr})")
        if pa.file_none is False:
            if n_wr == 1 and not anyext and len(anywr) == 1:
                seen["wr"] += 1
            elif not n_wr and not anywr:
                bad("R1.4", f"missing: {WR}" if pa.more_data is not False else f"{WR} under not (event.more_data)", f"file data of every Data event is written as it arrives - a Data event of an upload{' that is not the last one' if pa.more_data else ''} is not written to the file")
                bad("R15.5", WR, "upload data is not streamed to the file sink as it arrives")
            else:
                bad("R1.4", f"file data: {anyext + anywr}", f"a Data event of an upload does not write exactly its own bytes to the file once (got {anyext + anywr})")
        if raising:
            continue
        flush_calls = [t for k, t, _v in pa.effects if k == "call" and (t.startswith("items.append(") or t in (CLR, SEEK))]
        resets = local_events(pa, "file")
        if pa.more_data is True:
            if flush_calls or resets:
                bad("R1.4", f"flush while more data follows: {(flush_calls + ['file = ...'] * len(resets))[0]}", "a part is flushed / its slot released on a Data event that is not the last one of the part")
        elif pa.more_data is False:
            if pa.file_none is True:
                a, b_, c = exactly(pa, EXT), exactly(pa, APPF), exactly(pa, CLR)
                if b_ is None:
                    bad("R1.4", f"missing: {APPF}", f"a field is flushed exactly on its last Data event - `{APPF}` does not happen exactly once there (got {flush_calls})")
                elif c is None:
                    bad("R1.4", f"missing: {CLR}", f"the field accumulator is reset after the flush - `{CLR}` does not happen exactly once on the last Data event")
                elif (exactly(pa, DEC) is None or not exactly(pa, DEC) < c) or (a is not None and not a < exactly(pa, DEC)):
                    # what matters is that the buffer is decoded before it is cleared (the decoded text is what gets appended,
                    # before or after the clear) and that this event's bytes were added before the decode
                    bad("R1.4", "clear before append", "the accumulator is cleared before the field is decoded for the append (or the last bytes are added after the flush)")
                elif [t for t in flush_calls if t not in (APPF, CLR)]:
                    bad("R1.4", f"extra flush effects {flush_calls}", f"the last Data event of a field does more than append the field and clear the buffer: {flush_calls}")
                else:
                    seen["flushf"] += 1
            elif pa.file_none is False:
                a, s_, b_ = exactly(pa, WR), exactly(pa, SEEK), exactly(pa, APPU)
                rs = [i for i, v in resets if v == NONE]
                if s_ is None:
                    bad("R1.4", f"missing: {SEEK}", "an upload is rewound when its last Data event arrives - `file.seek(0)` does not happen exactly once there")
                elif b_ is None:
                    bad("R1.4", f"missing: {APPU}", f"an upload is appended exactly on its last Data event - `{APPU}` does not happen exactly once there (got {flush_calls})")
                elif len(rs) != 1 or len(resets) != 1:
                    bad("R1.4", "missing: file = None", "the file slot is released after the upload - `file = None` does not happen exactly once on the last Data event")
                elif not (s_ < b_ and s_ < rs[0]) or (a is not None and not a < s_):
                    # (the appended pair holds the file object itself - the text of the append says so - whether the slot is
                    # released before or after the append)
                    bad("R1.4", "seek/append/reset order", "upload is not rewound before it is appended, or the slot is reset too early (or bytes are written after the rewind)")
                elif [t for t in flush_calls if t not in (SEEK, APPU)]:
                    bad("R1.4", f"extra flush effects {flush_calls}", f"the last Data event of an upload does more than rewind, append and release: {flush_calls}")
                else:
                    seen["flushu"] += 1
            else:
                if flush_calls or resets:
                    bad("R1.4", "flush not decided by the upload slot", "the flush of a completed part does not depend on whether an upload is open (`file is None`)")
        else:
            if flush_calls or resets:
                bad("R1.4", f"{flush_calls[0] if flush_calls else 'file = None'} not under not (event.more_data)", f"`{flush_calls[0] if flush_calls else 'file = None'}` is no longer guarded by `not event.more_data` (a field is flushed exactly on its last Data event)")
    if seen["ext"]:
        ok("R1.4", f"field data of every Data event is accumulated ({seen['ext']} paths: exactly one {EXT}, no file write)")
    if seen["wr"]:
        ok("R1.4", f"file data of every Data event is written as it arrives ({seen['wr']} paths: exactly one {WR}, nothing buffered)")
        ok("R15.5", "upload data is written to the file sink on every Data event")
    elif data_paths and not any(o[0] == "R15.5" for o in out):
        bad("R15.5", WR, "upload data is not streamed to the file sink as it arrives")
    if seen["flushf"]:
        ok("R1.4", "a field is flushed exactly on its last Data event: append (name, decoded buffer), then clear the buffer")
        ok("R1.4", "the field accumulator is reset after the flush")
    if seen["flushu"]:
        ok("R1.4", "an upload is rewound, appended and its slot released - in that order - exactly on its last Data event")
        ok("R1.4", "an upload is appended exactly on its last Data event")
        ok("R1.4", "the file slot is released after the upload")
    if data_paths and not (seen["flushf"] and seen["flushu"]) and not any(o[0] == "R1.4" and o[1] == "violation" for o in out):
        und("R1.4", "no path found on which a completed field / upload is flushed")
    # effects of the Data handling must not leak into other events
    for pa in paths:
        if "Data" in pa.classes:
            continue
        leak = [t for k, t, _v in pa.effects if k == "call" and (t.startswith("data.") or t.startswith("items.") or t.startswith("file.write") or t.startswith("file.seek"))]
        if leak:
            bad("R1.4", f"{leak[0]} not under isinstance(event, Data)", f"`{leak[0]}` is no longer guarded by `isinstance(event, Data)` (it runs on a {sorted(pa.classes)} event)")

    # ---- Field / File
    FN = ("attr", ("param", "event"), "name")
    got_field = got_file = False
    for pa in paths:
        if pa.exit == "raises":
            continue
        if pa.classes == frozenset({"Field"}):
            if pa.final.get("field_name") == FN and "file" not in pa.final and not [t for k, t, _ in pa.effects if k == "call" and t.startswith("file_factory(")]:
                got_field = True
            elif pa.final.get("field_name") != FN:
                bad("R1.4", "field_name = event.name", "the part name is not recorded for both Field and File events (a Field event does not set it to event.name)")
            else:
                bad("R1.4", "file opened on a Field event", "a Field event opens / changes the upload slot")
        if pa.classes == frozenset({"File"}):
            fv = pa.final.get("file")
            okf = fv is not None and fv[0] == "call" and fv[1] == ("param", "file_factory") and tuple(fv[2]) == (("attr", ("param", "event"), "filename"), ("attr", ("param", "event"), "headers")) and not fv[3]
            if pa.final.get("field_name") != FN:
                bad("R1.4", "field_name = event.name", "the part name is not recorded for both Field and File events (a File event does not set it to event.name)")
            elif not okf:
                bad("R1.4", "missing: file = file_factory(event.filename, event.headers)", f"a File event opens the upload with its filename and headers - got {show(fv)[:60] if fv else 'no assignment'}")
            else:
                got_file = True
    if got_field and got_file:
        ok("R1.4", "the part name is taken from both Field and File events")
        ok("R1.4", "a File event opens the upload with its filename and headers")

    # ---- the two counters (C15)
    roles_inv = set(it.roles.values())
    for counter, limit, what in (("form_memory_size_count", "max_form_memory_size", "field-size"), ("form_parts_count", "max_form_parts", "part")):
        if counter not in roles_inv:
            # does the helper itself compare something with the limit? then that something has to be a running total
            L = ("param", limit)
            cmpd = [(f[2] if f[3] == L else f[3]) for pa in paths for f, _t in pa.facts if f[0] == "cmp" and f[1] in ("Gt", "GtE", "Lt", "LtE") and L in (f[2], f[3])]
            if cmpd:
                bad("R15.1", f"{limit} compared with {show(cmpd[0])[:50]}", f"the value compared with {limit} ({show(cmpd[0])[:50]}) is not a running total kept across the events of the form: "
                    + ("the limit is applied per field, so a form with many fields below the limit each is buffered without bound" if counter == "form_memory_size_count" else "parts are not counted across the form"))
            else:
                und("R15.1", f"the {what} counter is not a local of the helper compared with {limit} (limit bookkeeping moved elsewhere)")
            continue
        n_ok = n_chk = 0
        for pa in paths:
            locs = local_events(pa, counter)
            counted_here = pa.classes == frozenset({"Data"}) and ((pa.file_none is True) if counter == "form_memory_size_count" else (pa.more_data is False))
            if counter == "form_parts_count" and pa.exit == "raises" and pa.more_data is None:
                continue  # raised by the field-size limit before the part could complete
            C = ("param", counter)
            want = ("binop", "Add", C, ("call", ("builtin", "len"), (("attr", ("param", "event"), "data"),), (), 0)) if counter == "form_memory_size_count" else ("binop", "Add", C, ("const", 1))

            def same(v):
                if counter == "form_parts_count":
                    return v in (want, ("binop", "Add", ("const", 1), C))
                return v[0] == "binop" and v[1] == "Add" and ((v[2] == C and v[3][0] == "call" and v[3][1] == ("builtin", "len") and v[3][2] == (("attr", ("param", "event"), "data"),)) or (v[3] == C and v[2][0] == "call" and v[2][1] == ("builtin", "len") and v[2][2] == (("attr", ("param", "event"), "data"),)))
            if not counted_here:
                if locs and "Data" in pa.classes or locs:
                    if counter == "form_memory_size_count":
                        bad("R15.1", f"{counter} updated under {pa.fact_text()[-2:]}", f"the field-byte counter is not updated on exactly the in-memory field Data paths (it changes on a path with file_none={pa.file_none}, classes {sorted(pa.classes)})")
                    else:
                        bad("R15.1", f"{counter} updated under {pa.fact_text()[-2:]}", f"the part counter is not updated on exactly the last-Data paths of both fields and files (it changes on a path with more_data={pa.more_data}, classes {sorted(pa.classes)})")
                continue
            if not locs:
                if pa.exit == "raises":
                    continue
                if counter == "form_memory_size_count":
                    bad("R15.1", f"{counter} not updated", "the field-byte counter is not updated on exactly the in-memory field Data paths (a Data event of a field is not counted)")
                else:
                    bad("R15.1", f"{counter} not updated", f"the part counter is not updated on exactly the last-Data paths of both fields and files (not counted when file_none={pa.file_none})")
                continue
            if len(locs) != 1:
                bad("R15.1", f"{len(locs)} increments of {counter}", f"the {what} counter is updated at {len(locs)} places on one path (exactly one expected)")
                continue
            idx, val = locs[0]
            if not same(val):
                if counter == "form_memory_size_count":
                    bad("R15.1", f"{counter} = {show(val)[:50]}", "the field-byte counter does not grow by len(event.data)")
                else:
                    bad("R15.1", f"{counter} = {show(val)[:50]}", "the part counter does not grow by exactly 1")
                continue
            n_ok += 1
            if counter == "form_memory_size_count":
                e_i = exactly(pa, EXT)
                # accumulate and count belong together: both on this path (checked above), nothing flushed in between
                if e_i is None:
                    bad("R15.3", "count and accumulate in different blocks", "field bytes are accumulated and counted in different branches")
            # the comparison with the limit
            lf = _limit_facts(pa, counter, limit)
            ln = _limit_none(pa, limit)
            raised_here = pa.exit == "raises" and pa.raised is not None and pa.raised.endswith("RequestEntityTooLarge")
            if counter == "form_parts_count" and raised_here and not lf:
                continue
            if counter == "form_memory_size_count" and raised_here and not lf and pa.more_data is False:
                continue  # the part-limit raise on the same path
            if ln is True:
                if raised_here and not lf and counter == "form_memory_size_count":
                    bad("R15.1", "raise although no limit is configured", "RequestEntityTooLarge is raised for the field-size limit although max_form_memory_size is None")
                continue
            if not lf:
                if counter == "form_memory_size_count":
                    if not any(_limit_facts(q, counter, limit) for q in paths):
                        bad("R15.1", "no field-size limit", "no RequestEntityTooLarge is raised for the field-size limit")
                    else:
                        bad("R15.3", "memory limit checked elsewhere", "the field-size limit is not checked in the iteration that adds the bytes (an over-limit field is buffered further before it is rejected)")
                else:
                    if not any(_limit_facts(q, counter, limit) for q in paths):
                        bad("R15.1", "no part limit", "no RequestEntityTooLarge is raised for the part limit")
                    else:
                        bad("R15.1", "part limit not checked after the increment", f"the part limit test is not `{counter} > {limit}` directly after the increment")
                continue
            for op, side, truth in lf:
                if op == "GtE":
                    bad("R15.1", f"{counter} >= {limit}", f"the {what} limit is compared with >= : a {'field of exactly the limit' if counter == 'form_memory_size_count' else 'form with exactly the maximum number of parts'} is rejected (the statement says 'exceeds')")
                elif op != "Gt":
                    bad("R15.1", f"{counter} {op} {limit}", f"the {what} limit test is not `{counter} > {limit}`")
                elif not same(side):
                    if counter == "form_memory_size_count":
                        bad("R15.3", "memory limit checked elsewhere", "the field-size limit is not checked in the iteration that adds the bytes: the value compared is not the counter after this event's bytes were added (an over-limit field is buffered further before it is rejected)")
                    else:
                        bad("R15.1", "part limit not checked after the increment", f"the part limit test is not `{counter} > {limit}` directly after the increment")
                elif truth and not raised_here:
                    bad("R15.1", f"no raise when {counter} > {limit}", f"crossing the {what} limit does not raise RequestEntityTooLarge")
                elif not truth and raised_here and len(lf) == 1 and not (counter == "form_memory_size_count" and pa.more_data is False):
                    bad("R15.1", f"raise although {counter} <= {limit}", f"RequestEntityTooLarge is raised although the {what} limit is not exceeded")
                else:
                    n_chk += 1
            if counter == "form_memory_size_count" and ln is None and lf and pa.exit == "raises":
                bad("R15.1", f"{limit} is not None missing", f"the field-size limit test is not `{limit} is not None and {counter} > {limit}` (None is compared with an int)")
        if n_ok and not any(o[0] in ("R15.1", "R15.3") and o[1] == "violation" and counter in (o[2] + o[3]) for o in out):
            if counter == "form_memory_size_count":
                ok("R15.1", "field bytes are counted on every Data event of a field and on no file path")
                ok("R15.1", f"`{limit} is not None and {counter} > {limit}` is tested on the counter after the increment, in the same Data iteration")
                ok("R15.3", "an over-limit field is rejected on the event that crosses the limit")
            else:
                ok("R15.1", "parts are counted once per completed part, field or file")
                ok("R15.1", f"`{counter} > {limit}` is tested right after the increment")
    return out
