"""C20 - middleware is transparent to what it does not change."""
from __future__ import annotations

import ast
from typing import Dict, List, Optional, Set

from ..collect import callee_is, run_paths
from ..common import with_helpers, nested_fn, passed_as_argument, defs_of, calls_in, construct, where
from ..flow import Value, show, subterms
from ..loader import AnalysisError, ClassInfo, FuncInfo, Program, walk_shallow
from ..report import Report


def _headers_folds(p: Program) -> bool:
    """Does Headers.__init__ fold repeated names into one comma-joined value?"""
    init = p.cls("baize.datastructures:Headers").methods.get("__init__")
    if init is None:
        raise AnalysisError("Headers.__init__ vanished")
    for n in ast.walk(init.node):
        if isinstance(n, ast.JoinedStr) and any(isinstance(v, ast.Constant) and "," in str(v.value) for v in n.values):
            return True
    return False


def _slot(v):
    """Where a value handed to the rebuilt response lives between the capture callback and from_app: a variable the callback
    rebinds (`nonlocal x`) -> ('cell', x, None); one element of a container the callback fills in place (`box[1] = ...`,
    `state["headers"] = ...`, `state.headers = ...`) -> ('cell', box, key)."""
    if v[0] == "cell":
        return ("cell", v[1], None)
    if v[0] == "unpack" and v[1][0] == "cell":
        return ("cell", v[1][1], v[2])
    if v[0] == "sub" and v[1][0] == "cell" and v[2][0] == "const":
        return ("cell", v[1][1], v[2][1])
    if v[0] == "attr" and v[1][0] == "cell":
        return ("cell", v[1][1], "." + v[2])
    return None


def _slot_text(slot) -> str:
    return slot[1] if slot[2] is None else (f"{slot[1]}{slot[2]}" if isinstance(slot[2], str) and slot[2].startswith(".") else f"{slot[1]}[{slot[2]!r}]")


def _slot_stores(cb, slot):
    """(statement, stored expression) for every store of the callback into the slot"""
    out = []
    for n in walk_shallow(cb.node):
        if not isinstance(n, (ast.Assign, ast.AnnAssign)) or getattr(n, "value", None) is None:
            continue
        for t in (n.targets if isinstance(n, ast.Assign) else [n.target]):
            if slot[2] is None and isinstance(t, ast.Name) and t.id == slot[1]:
                out.append((n, n.value))
            elif slot[2] is not None and isinstance(t, ast.Subscript) and isinstance(t.value, ast.Name) and t.value.id == slot[1] and isinstance(t.slice, ast.Constant) and t.slice.value == slot[2]:
                out.append((n, n.value))
            elif isinstance(slot[2], str) and slot[2].startswith(".") and isinstance(t, ast.Attribute) and isinstance(t.value, ast.Name) and t.value.id == slot[1] and "." + t.attr == slot[2]:
                out.append((n, n.value))
            elif isinstance(t, (ast.Tuple, ast.List)) and isinstance(n.value, (ast.Tuple, ast.List)) and len(t.elts) == len(n.value.elts):
                for te, ve in zip(t.elts, n.value.elts):
                    if slot[2] is None and isinstance(te, ast.Name) and te.id == slot[1]:
                        out.append((n, ve))
    return out


def run(p: Program, rep: Report, tier: str) -> None:
    rep.explanation = (
        "R20.1 the container that carries the inner application's header list from the capture callback to the rebuilt "
        "response must preserve multiplicity; Headers(...) folds repeated names with ', ' (decided from Headers.__init__), "
        "so capturing into it merges several Set-Cookie lines. R20.2 the inner application is called exactly once on every "
        "path of from_app; the middleware wrapper calls the handler once and next_call is the only route to from_app. R20.3 "
        "iterator discipline: the iterator that was advanced to force the first chunk is the one that is drained afterwards. "
        "R20.4 status and body relay (status from the start event, every body message pushed, EOF exactly when more_body is "
        "false). R20.5 the view decorators are pure pass-through. R20.6 the ASGI header text/bytes "
        "conversions on the two sides of a middleware (from_app decode, list_headers encode) both use Latin-1, the only codec that reproduces every byte string. NOT decided: byte equality of streamed bodies."
    )
    folds = _headers_folds(p)
    rep.ok("R20.1", f"fact: Headers.__init__ folds repeated names: {folds}")

    for side in ("wsgi", "asgi"):
        cls = p.cls(f"baize.{side}.middleware:NextResponse")
        fa = cls.methods.get("from_app")
        if fa is None:
            raise AnalysisError(f"{side} NextResponse.from_app vanished")
        rep.analysed(fa.fq)
        cb = nested_fn(fa, "start_response" if side == "wsgi" else "send", passed_as_argument(fa))
        if cb is None:
            rep.undecide("R20.1", f"{side}: capture callback not found in from_app")
            continue
        rep.analysed(cb.fq)
        # ---------------- R20.1: what is stored into the captured header variable
        paths, col, it = run_paths(p, fa, cls)
        rep.cfg_paths += len(paths)
        ctor_args = None
        for pa in paths:
            if pa.exit != "return":
                continue
            v = pa.value
            if v[0] == "call" and callee_is(v[1], "NextResponse") and len(v[2]) >= 3:
                ctor_args = v[2]
            else:
                rep.violation("R20.4", construct(fa, text=f"return {show(v)[:60]}"), where(fa), f"{side}: from_app does not return NextResponse(body, status, headers)")
        if ctor_args is None:
            rep.undecide("R20.1", f"{side}: NextResponse(...) construction not found")
            continue
        hv = ctor_args[2]
        hslot = _slot(hv)
        if hslot is None:
            rep.undecide("R20.1", f"{side}: headers argument {show(hv)} is not a variable captured by the callback")
        else:
            hname = _slot_text(hslot)
            stores = _slot_stores(cb, hslot)
            if not stores:
                rep.violation("R20.1", construct(cb, text=f"{hname} never assigned"), where(cb), f"{side}: the capture callback never stores the inner application's headers")
            stores = [(st, d_) for st, v0 in stores for d_ in (defs_of(cb, v0) if isinstance(v0, ast.Name) else [v0]) if not (isinstance(d_, ast.Constant) and d_.value is None)]
            for st, val in stores:
                r = p.resolve_call(cb, val) if isinstance(val, ast.Call) else None
                if isinstance(r, ClassInfo) and r.fq == "baize.datastructures:Headers" and folds:
                    rep.violation("R20.1", construct(cb, text="inner header list stored as Headers(...)"), where(cb, st),
                                  f"{side}: the inner application's header list is captured in Headers(...), which folds repeated names with ', ': "
                                  "two Set-Cookie lines of the inner response become one invalid line after the middleware")
                elif isinstance(val, (ast.List, ast.ListComp)) or (isinstance(val, ast.Call) and isinstance(val.func, ast.Name) and val.func.id in ("list", "tuple")):
                    rep.ok("R20.1", f"{side}: headers captured as a list of pairs (multiplicity preserved)")
                else:
                    rep.undecide("R20.1", f"{side}: capture container {ast.unparse(val)[:60]} not in the idiom table")
        # ---------------- R20.2: app called exactly once
        for pa in paths:
            if pa.exit != "return":
                continue
            n_app = len([e for e in pa.events if e.kind == "call" and e.a == ("param", "app")])
            if n_app == 1:
                rep.ok("R20.2", f"{side}: from_app calls the inner application exactly once")
            else:
                rep.violation("R20.2", construct(fa, text=f"app called {n_app} times"), where(fa), f"{side}: from_app calls the inner application {n_app} times on a path")
            apps = [e for e in pa.events if e.kind == "call" and e.a == ("param", "app")]
            if apps:
                a = apps[0].b
                want = 2 if side == "wsgi" else 3
                if len(a) == want and a[0] == ("param", "request") and a[-1][0] == "closure" and a[-1][1].endswith(cb.qualname):
                    rep.ok("R20.2", f"{side}: inner app receives the request and the capture callback")
                else:
                    rep.violation("R20.2", construct(fa, text=f"app({', '.join(show(x)[:30] for x in a)})"), where(fa), f"{side}: the inner application is not called with (request, ..., capture callback)")
        # ---------------- R20.4: status relay
        sslot = _slot(ctor_args[1])
        if sslot is None:
            rep.violation("R20.4", construct(fa, text=f"status {show(ctor_args[1])}"), where(fa), f"{side}: the rebuilt response does not use the captured status")
        else:
            sname = _slot_text(sslot)
            st_stores = _slot_stores(cb, sslot)
            txt = [ast.unparse(v_).replace('"', "'") for _, v_ in st_stores]
            want = ["int(status.split(' ')[0])"] if side == "wsgi" else ["message['status']"]
            if side == "wsgi":
                # the first blank-separated token of the status line, however it is cut off
                import re as _re
                txt = ["int(status.split(' ')[0])" if _re.fullmatch(r"int\(status\.(split\(' '(, 1)?\)|partition\(' '\))\[0\]\)", t_) else t_ for t_ in txt]
            if txt == want:
                rep.ok("R20.4", f"{side}: status captured as {txt[0]}")
            else:
                rep.violation("R20.4", construct(cb, text=f"{sname} = {txt}"), where(cb), f"{side}: the status is not taken unchanged from the inner application's start event (got {txt})")
        if side == "asgi":
            # body relay: push every body, EOF exactly when more_body is false
            cpaths, ccol, cit = run_paths(p, cb, None)
            pushed = eof = False
            for pa in cpaths:
                is_body = any(t and f[0] == "cmp" and f[1] == "Eq" and f[3] == ("const", "http.response.body") for f, t in pa.facts)
                pushes = [e for e in pa.events if e.kind == "call" and e.a[0] == "attr" and e.a[2] == "push"]
                eofs = [e for e in pa.events if e.kind == "call" and e.a[0] == "attr" and e.a[2] == "push_eof"]
                if is_body:
                    if len(pushes) == 1 and "body" in show(pushes[0].b[0]):
                        pushed = True
                    else:
                        rep.violation("R20.4", construct(cb, text="body message not pushed"), where(cb), "asgi: a body message of the inner application is not relayed exactly once")
                    more_false = any((not t) and "more_body" in show(f) for f, t in pa.facts)
                    more_true = any(t and "more_body" in show(f) for f, t in pa.facts)
                    if eofs and more_false and not more_true:
                        eof = True
                    elif eofs and not more_false:
                        rep.violation("R20.4", construct(cb, text="eof while more_body"), where(cb), "asgi: end of body is signalled although more_body is true")
                    elif not eofs and more_false and not more_true:
                        rep.violation("R20.4", construct(cb, text="no eof on final body"), where(cb), "asgi: the final body message does not end the relayed body")
                elif any(t and f[0] == "cmp" and f[1] == "Eq" and f[3] == ("const", "http.response.zerocopysend") for f, t in pa.facts):
                    # the zero-copy variant of a body message: its bytes are read from message["file"]; same end-of-body rule
                    reads_fd = any(e.kind == "call" and "os.read" in show(e.a) + show(e.b) for e in pa.events) or any("os.read" in show(e.b) for e in pa.events if e.kind == "call")
                    more_false = any((not t) and "more_body" in show(f) for f, t in pa.facts)
                    more_true = any(t and "more_body" in show(f) for f, t in pa.facts)
                    preads = []   # offset argument of every os.pread (called directly or through run_in_threadpool)
                    for e in pa.events:
                        if e.kind != "call":
                            continue
                        if e.a == ("ext", "os.pread") and len(e.b) > 2:
                            preads.append(e.b[2])
                        elif e.b and e.b[0] == ("ext", "os.pread") and len(e.b) > 3:
                            preads.append(e.b[3])
                    fixed = None
                    for off in preads:
                        for y in subterms(off):
                            if y[0] == "call" and y[1][0] == "attr" and y[1][2] == "get" and len(y[2]) == 2 and y[2][0] == ("const", "offset") and y[2][1][0] == "const" and y[2][1][1] is not None:
                                fixed = y
                    if pushes and preads and fixed is not None:
                        rep.violation("R20.4", construct(cb, text=f"zerocopysend read with os.pread at {show(fixed)[:40]}"), where(cb),
                                      f"asgi: a zero-copy send message is read with os.pread at `{show(fixed)[:50]}`: a message WITHOUT an offset means 'from the descriptor's current position', "
                                      f"not position {fixed[2][1][1]!r} - an inner application that seeks first, or sends two messages without offsets, gets its body relayed from the wrong place", positive=True)
                    elif pushes and preads:
                        rep.undecide("R20.4", "asgi: a zero-copy send message is read with os.pread; that a missing offset means the descriptor's current position is not followed")
                    elif pushes and not reads_fd:
                        rep.violation("R20.4", construct(cb, text="zerocopysend relayed without reading the file"), where(cb), "asgi: a zero-copy send message is relayed without reading the bytes of its file descriptor")
                    elif eofs and not more_false:
                        rep.violation("R20.4", construct(cb, text="eof while more_body"), where(cb), "asgi: end of body is signalled although more_body is true")
                    elif not eofs and more_false and not more_true:
                        rep.violation("R20.4", construct(cb, text="no eof on final body"), where(cb), "asgi: the final zero-copy message does not end the relayed body")
                    else:
                        rep.ok("R20.4", "asgi: a zero-copy send message is relayed by reading its file descriptor; EOF exactly when more_body is false")
                elif pushes or eofs:
                    rep.violation("R20.4", construct(cb, text="push on non-body message"), where(cb), "asgi: something is pushed to the body on a non-body message")
            if pushed and eof:
                rep.ok("R20.4", "asgi: every body message is pushed once; EOF exactly when more_body is false")
        else:
            body = ctor_args[0]
            if body[0] == "call" and callee_is(body[1], "ensure_next") and body[2] and body[2][0][0] == "call" and body[2][0][1] == ("param", "app"):
                rep.ok("R20.3", "wsgi: the first chunk is forced (ensure_next) before the response is rebuilt, so start_response has run")
            else:
                rep.violation("R20.3", construct(fa, text=f"body {show(body)[:60]}"), where(fa), "wsgi: the response is rebuilt before the inner application's first chunk was forced (status/headers not yet captured)")

    # ASGI spec: an absent more_body means False. Every read of that key in the ASGI stack must default to False.
    n_mb = 0
    for m in p.modules.values():
        if not m.name.startswith("baize.asgi"):
            continue
        for fn_ in m.all_funcs:
            for c in calls_in(fn_):
                if isinstance(c.func, ast.Attribute) and c.func.attr == "get" and c.args and isinstance(c.args[0], ast.Constant) and c.args[0].value == "more_body":
                    n_mb += 1
                    d = c.args[1] if len(c.args) > 1 else None
                    if isinstance(d, ast.Constant) and d.value is False:
                        rep.ok("R20.4", f"{fn_.fq}: message.get('more_body', False)")
                    else:
                        rep.violation("R20.4", construct(fn_, c), where(fn_, c), f"{fn_.fq} reads more_body with default {ast.unparse(d) if d else 'None'}: per the ASGI spec an absent more_body means False (the final message of a plain ASGI app is not recognised as final)")
    # the capture callbacks must accept whatever the inner application sends: no raise, no early exit before the capture
    for side in ("wsgi", "asgi"):
        fa = p.cls(f"baize.{side}.middleware:NextResponse").methods["from_app"]
        cb = nested_fn(fa, "start_response" if side == "wsgi" else "send", passed_as_argument(fa))
        if cb is None:
            continue
        rs_ = [n for n in ast.walk(cb.node) if isinstance(n, ast.Raise)]
        if rs_:
            rep.violation("R20.4", construct(cb, text="capture callback raises"), where(cb, rs_[0]),
                          f"{side}: the capture callback raises ({ast.unparse(rs_[0])[:60]}): a start event the bare gateway accepts (e.g. start_response(..., exc_info) before any output) aborts the inner application behind the middleware")
        else:
            rep.ok("R20.4", f"{side}: the capture callback never raises")
    # ---------------------------------------------------------------- R20.3 ensure_next
    en = p.function("baize.wsgi.middleware", "ensure_next")
    if en is None:
        raise AnalysisError("ensure_next vanished")
    rep.analysed(en.fq)
    gen = nested_fn(en, "generator")
    argmap: Dict[str, str] = {}
    if gen is None:
        # the re-emitting generator may be a private module-level generator called with the captured values as arguments
        for n in walk_shallow(en.node):
            if isinstance(n, ast.Return) and isinstance(n.value, ast.Call):
                g_ = p.resolve_call(en, n.value)
                if isinstance(g_, FuncInfo) and g_.is_generator() and not n.value.keywords and len(n.value.args) <= len(g_.params):
                    gen = g_
                    argmap = {pn: ast.unparse(a) for pn, a in zip(g_.params, n.value.args)}
    # what ensure_next hands back is closed by the server (PEP 3333) and that close() has to reach the inner application's iterable:
    # a generator (`yield first; yield from iterator`) forwards it, an itertools object (chain / islice / map ...) has no close() at all
    for n in walk_shallow(en.node):
        if isinstance(n, ast.Return) and isinstance(n.value, ast.Call):
            r_ = p.resolve_call(en, n.value)
            if isinstance(r_, tuple) and r_[0] in ("ext", "builtin") and (str(r_[1]).startswith("itertools.") or r_[1] in ("map", "filter", "zip", "iter", "enumerate")):
                rep.violation("R20.3", construct(en, text=f"returns {str(r_[1])}(...)"), where(en, n),
                              f"ensure_next returns `{ast.unparse(n.value)[:60]}`: a {r_[1]} object has no close(), so when the server closes the response the inner application's iterable "
                              "(a streaming generator with cleanup, an event-stream relay) is never closed", positive=True)
    it_names: Set[str] = set()
    advanced: List[str] = []
    anon_advance = None
    for n in walk_shallow(en.node):
        if isinstance(n, ast.Assign) and isinstance(n.targets[0], ast.Name) and isinstance(n.value, ast.Call):
            t = ast.unparse(n.value)
            if t in (f"iter({en.params[0]})", f"{en.params[0]}.__iter__()"):
                it_names.add(n.targets[0].id)
        if isinstance(n, ast.Call):
            t = ast.unparse(n)
            if isinstance(n.func, ast.Name) and n.func.id == "next" and n.args and isinstance(n.args[0], ast.Name):
                advanced.append(n.args[0].id)
            elif isinstance(n.func, ast.Attribute) and n.func.attr == "__next__":
                if isinstance(n.func.value, ast.Name):
                    advanced.append(n.func.value.id)
                else:
                    anon_advance = n
    drained = [ast.unparse(n.value) for n in ast.walk(gen.node) if isinstance(n, ast.YieldFrom)] if gen else []
    for_drained = [ast.unparse(n.iter) for n in ast.walk(gen.node) if isinstance(n, ast.For)] if gen else []
    drained += for_drained
    drained = [argmap.get(d, d) for d in drained]
    if anon_advance is not None:
        rep.violation("R20.3", construct(en, text="iterable.__iter__().__next__() then yield from iterable"), where(en, anon_advance),
                      "the iterator that is advanced to obtain the first chunk is a temporary; the body is then re-iterated from the iterable itself: "
                      "a list-like inner body is restarted and its first chunk is sent twice")
    elif not advanced or not drained:
        rep.undecide("R20.3", f"ensure_next: advanced={advanced} drained={drained}")
    elif all(a in it_names for a in advanced) and all(d in advanced for d in drained):
        rep.ok("R20.3", f"the iterator advanced for the first chunk ({advanced[0]}) is the one drained afterwards")
    else:
        rep.violation("R20.3", construct(en, text=f"advanced {advanced} drained {drained}"), where(en),
                      "the object drained after the first chunk is not the iterator that was advanced (first chunk duplicated or lost)")
    ys = [argmap.get(ast.unparse(n.value), ast.unparse(n.value)) for n in ast.walk(gen.node) if isinstance(n, ast.Yield) and n.value is not None] if gen else []
    if ys[:1] == ["first_chunk"] or (ys and any(isinstance(n, ast.Assign) and ast.unparse(n.targets[0]) == ys[0] for n in walk_shallow(en.node))):
        rep.ok("R20.3", "the forced first chunk is yielded first")
    elif gen is None and any(isinstance(n, ast.Return) and isinstance(n.value, ast.Call) and isinstance(p.resolve_call(en, n.value), ClassInfo) for n in walk_shallow(en.node)):
        rep.undecide("R20.3", "ensure_next hands the first chunk and the advanced iterator to an iterator object; the re-emission order is not read off a class")
    else:
        rep.violation("R20.3", construct(en, text=f"yields {ys}"), where(en), "the forced first chunk is not re-emitted first")

    # an application may legally return an EMPTY iterable (204, 304, a HEAD answer): forcing the first chunk must not turn
    # that into StopIteration (inside the middleware's generator: RuntimeError) - next() needs a default or a handler
    from .stream_common import _handlers_around
    nexts = [c for c in calls_in(en, deep=False) if (isinstance(c.func, ast.Name) and c.func.id == "next") or (isinstance(c.func, ast.Attribute) and c.func.attr == "__next__")]
    for c in nexts:
        has_default = isinstance(c.func, ast.Name) and len(c.args) >= 2
        caught = any(h.type is None or any(nm in ast.unparse(h.type) for nm in ("StopIteration", "Exception", "BaseException")) for h in _handlers_around(c, en))
        if has_default or caught:
            rep.ok("R20.3", "forcing the first chunk tolerates an empty body (StopIteration handled)")
        else:
            rep.violation("R20.3", construct(en, text="next() of a possibly empty body"), where(en, c),
                          "ensure_next advances the inner application's body with next() and lets StopIteration escape: an inner application that returns an empty iterable (204/304/HEAD) makes the "
                          "wrapped application raise RuntimeError('generator raised StopIteration') while the bare application answers normally")
    # ---------------------------------------------------------------- R20.2 / R20.5 wrappers
    for side in ("wsgi", "asgi"):
        mw = p.module(f"baize.{side}.middleware").functions.get("middleware")
        mwd = nested_fn(mw, "d")
        inner = nested_fn(mwd, side)
        if inner is None:
            raise AnalysisError(f"{side} middleware.d.{side} vanished")
        rep.analysed(inner.fq)
        nc = nested_fn(inner, "next_call", passed_as_argument(inner))
        if nc is None or (mwd is not None and nc.name not in inner.nested):
            # the continuation may be defined once per decorated application, next to the gateway function
            sib = [f_ for f_ in mwd.nested.values() if f_ is not inner and passed_as_argument(inner)(f_)] if mwd is not None else []
            if len(sib) == 1:
                nc = sib[0]
        hname = mw.params[0] if mw.params else "handler"
        hcalls = [c for c in calls_in(inner) if isinstance(c.func, ast.Name) and c.func.id == hname]
        # roles: the request object built from the gateway arguments, the nested continuation
        def _is_request(e_: ast.expr) -> bool:
            ds = defs_of(inner, e_)
            return bool(ds) and all(isinstance(d_, ast.Call) and ast.unparse(d_.func) == "NextRequest" for d_ in ds)
        if len(hcalls) == 1 and len(hcalls[0].args) == 2 and not hcalls[0].keywords and _is_request(hcalls[0].args[0]) \
                and isinstance(hcalls[0].args[1], ast.Name) and nc is not None and hcalls[0].args[1].id == nc.name:
            rep.ok("R20.2", f"{side}: the middleware calls handler(request, next_call) exactly once")
        else:
            rep.violation("R20.2", construct(inner, text=f"{len(hcalls)} handler calls"), where(inner), f"{side}: the middleware wrapper does not call handler(request, next_call) exactly once")
        if nc is not None:
            fcalls = [c for c in calls_in(nc) if ast.unparse(c.func) == "NextResponse.from_app"]
            if len(fcalls) == 1 and [ast.unparse(a) for a in fcalls[0].args] == [mwd.params[0], nc.params[0]]:
                rep.ok("R20.2", f"{side}: next_call -> NextResponse.from_app(app, request) once")
            else:
                rep.violation("R20.2", construct(nc, text="next_call"), where(nc), f"{side}: next_call does not delegate exactly once to NextResponse.from_app(app, request)")
        others = [c for c in calls_in(inner) if isinstance(c.func, ast.Name) and c.func.id == mwd.params[0]]
        if others:
            rep.violation("R20.2", construct(inner, others[0]), where(inner, others[0]), f"{side}: the middleware wrapper calls the inner application directly (it would run twice)")
        gw = ["environ", "start_response"] if side == "wsgi" else ["scope", "receive", "send"]
        resp_names = set()
        for n in walk_shallow(inner.node):
            if isinstance(n, ast.Assign) and any(h is x for h in hcalls for x in ast.walk(n.value)):
                resp_names |= {t.id for t in n.targets if isinstance(t, ast.Name)}
        rcalls = [c for c in calls_in(inner) if isinstance(c.func, ast.Name) and c.func.id in resp_names]
        if len(rcalls) == 1 and [ast.unparse(a) for a in rcalls[0].args] == gw:
            rep.ok("R20.5", f"{side}: the handler's response is called once with the original gateway arguments")
        else:
            rep.violation("R20.5", construct(inner, text="response(...)"), where(inner), f"{side}: the handler's response is not called exactly once with the original {gw}")
        # shortcut: decorator / request_response
        sm = p.module(f"baize.{side}.shortcut")
        dec = sm.functions.get("decorator")
        decd = nested_fn(dec, "d")
        view = nested_fn(decd, "view")
        if view is None:
            raise AnalysisError(f"{side} decorator.d.view vanished")
        rep.analysed(view.fq)
        rets = [n for n in walk_shallow(view.node) if isinstance(n, ast.Return)]
        txt = ast.unparse(rets[0].value) if rets else ""
        dh = dec.params[0] if dec.params else "handler"
        vp = view.params
        dp = decd.params
        want_txt = f"{dh}({vp[0]}, {dp[0]})" if len(vp) == 1 and len(dp) == 1 else None
        if want_txt is not None and txt in (want_txt, "await " + want_txt) and len(rets) == 1 and len(view.node.body) <= 2:
            rep.ok("R20.5", f"{side}: decorator view returns handler(request, next_call) unchanged")
        else:
            rep.violation("R20.5", construct(view, text=f"return {txt}"), where(view), f"{side}: the view decorator does not return handler(request, next_call) unchanged")
        rr = sm.functions.get("request_response")
        rin = nested_fn(rr, side)
        if rin is None:
            raise AnalysisError(f"{side} request_response.{side} vanished")
        rep.analysed(rin.fq)
        vname = rr.params[0] if rr.params else "view"
        vcalls = [c for c in calls_in(rin) if isinstance(c.func, ast.Name) and c.func.id == vname]
        if len(vcalls) == 1 and len(vcalls[0].args) == 1:
            rep.ok("R20.5", f"{side}: request_response calls the view exactly once")
        else:
            rep.violation("R20.5", construct(rin, text=f"{len(vcalls)} view calls"), where(rin), f"{side}: request_response does not call the view exactly once")
        names = {ast.unparse(n.targets[0]) for n in walk_shallow(rin.node) if isinstance(n, ast.Assign) and isinstance(n.value, (ast.Call, ast.Await)) and any(vc is x for vc in vcalls for x in ast.walk(n.value))}
        rc = [c for c in calls_in(rin) if isinstance(c.func, ast.Name) and c.func.id in names]
        if rc and all([ast.unparse(a) for a in c.args] == gw for c in rc):
            rep.ok("R20.5", f"{side}: the view's response is called with the original gateway arguments")
        else:
            rep.violation("R20.5", construct(rin, text="response call"), where(rin), f"{side}: request_response does not call the view's response with the original {gw}")
    # ---------------------------------------------------------------- R20.6 header codec agreement (ASGI)
    # an identity middleware decodes the inner application's header bytes (from_app) and the rebuilt response encodes them
    # again (list_headers(as_bytes=True)): the bytes are reproduced for EVERY header only if both use the one codec that is
    # a bijection between all byte strings and text - Latin-1
    LATIN1 = ("latin-1", "latin1", "latin_1", "iso-8859-1", "iso8859-1", "l1", "8859")

    def codecs_in(fn: FuncInfo, meth: str):
        out = []
        for c in calls_in(fn, deep=True):
            if isinstance(c.func, ast.Attribute) and c.func.attr == meth:
                arg = c.args[0] if c.args else next((k.value for k in c.keywords if k.arg == "encoding"), None)
                out.append((c, arg.value.lower() if isinstance(arg, ast.Constant) and isinstance(arg.value, str) else ("utf-8" if arg is None else None)))
        return out

    lh = p.cls("baize.responses:BaseResponse").methods.get("list_headers")
    afa = p.cls("baize.asgi.middleware:NextResponse").methods.get("from_app")
    if lh is None or afa is None:
        raise AnalysisError("BaseResponse.list_headers / asgi NextResponse.from_app vanished")
    rep.analysed(lh.fq)
    enc = [(c, cd) for f in with_helpers(p, lh) for c, cd in codecs_in(f, "encode")]
    decs = [(c, cd) for f0 in [afa] + list(afa.nested.values()) for f in with_helpers(p, f0) for c, cd in codecs_in(f, "decode")]
    if len(enc) < 2 or len(decs) < 2:
        rep.undecide("R20.6", f"expected the name/value encode calls of list_headers and the name/value decode calls of from_app, found {len(enc)}/{len(decs)}")
    for what, fn_, items in (("list_headers(as_bytes=True) encodes", lh, enc), ("asgi from_app decodes", afa, decs)):
        for c, cd in items:
            if cd in LATIN1:
                rep.ok("R20.6", f"{what} header text with Latin-1 ({ast.unparse(c)[:40]})")
            else:
                rep.violation("R20.6", construct(fn_, text=f"{ast.unparse(c.func)[:40]}({cd!r})"), where(fn_, c),
                              f"{what} header text with {cd or 'a non-constant codec'}, not Latin-1: a header value with a non-ASCII byte sent by the inner application is decoded by the middleware with one codec and "
                              "re-encoded with another, so wrapping the application changes (or fails on) that header")
    rep.require_instances("R20.6", 4)

    # ---------------------------------------------------------------- R20.7 the rebuilt response emits its headers like any other response
    # NextResponse (the inner response as seen by the handler) sends its captured headers through the shared
    # BaseResponse.list_headers; a private re-serialisation (e.g. splitting a folded value on ', ') changes header values
    # that contain that separator - an Expires date - although the middleware forwarded the response unchanged
    for side in ("wsgi", "asgi"):
        ncls = p.cls(f"baize.{side}.middleware:NextResponse")
        base_lh = p.cls("baize.responses:BaseResponse").methods.get("list_headers")
        found = p.find_method(ncls, "list_headers")
        if found is None or base_lh is None:
            raise AnalysisError("list_headers vanished")
        if found.fq == base_lh.fq:
            rep.ok("R20.7", f"{side}: NextResponse emits its headers through the shared BaseResponse.list_headers")
        else:
            surgery = [c for c in calls_in(found, deep=True) if isinstance(c.func, ast.Attribute) and c.func.attr in ("split", "rsplit", "join", "replace", "partition", "rpartition", "strip", "lower", "title")]
            if surgery:
                rep.violation("R20.7", construct(found, text=f"private list_headers with .{surgery[0].func.attr}()"), where(found, surgery[0]),
                              f"{side}: {found.fq} overrides the header emission of the rebuilt response and rewrites header text (.{surgery[0].func.attr}(...)): a value the handler returned unchanged "
                              "(e.g. a Set-Cookie with an Expires date, which contains ', ') is re-serialised differently from the bare application's")
            else:
                rep.ok("R20.7", f"{side}: NextResponse has its own list_headers that does not rewrite header text")
    # ... and the shared emitter itself hands out every stored header value whole (it may encode it, nothing else)
    surgery = [c for c in calls_in(base_lh, deep=True) if isinstance(c.func, ast.Attribute) and c.func.attr in ("split", "rsplit", "splitlines", "join", "replace", "partition", "rpartition", "strip", "lstrip", "rstrip", "lower", "upper", "title")]
    if surgery:
        rep.violation("R20.7", construct(base_lh, text=f"list_headers rewrites values with .{surgery[0].func.attr}()"), where(base_lh, surgery[0]),
                      f"BaseResponse.list_headers rewrites header text (.{surgery[0].func.attr}(...)) while emitting: a header the handler returned unchanged - e.g. a relayed Set-Cookie whose Expires date "
                      "contains ', ' - leaves the middleware different from what the bare application sent")
    else:
        rep.ok("R20.7", "BaseResponse.list_headers emits every stored header value whole (encode only)")
    rep.require_instances("R20.7", 3)
    # ---------------------------------------------------------------- R20.8 the header mapping's constructor (shared rule, sa/props/hdr_common.py)
    from .hdr_common import headers_ctor_passthrough, headers_ctor_own_store, headers_ctor_folds
    for _f in (headers_ctor_passthrough, headers_ctor_own_store, headers_ctor_folds):
        for kind, fn_, node, cons, msg in _f(p):
            if kind == "ok":
                rep.analysed(fn_.fq)
                rep.ok("R20.8", msg)
            elif kind == "undecided":
                rep.undecide("R20.8", msg)
            else:
                rep.violation("R20.8", construct(fn_, text=cons), where(fn_, node), msg)
    rep.require_instances("R20.8", 2)

    # ---------------------------------------------------------------- R20.9 the ASGI capture understands every response message the package sends
    # (exhaustiveness): every "http.response.*" message type that baize.asgi itself can emit must have a branch in the
    # capturing send() of from_app; a type that is ignored (the zero-copy send of FileResponse) silently loses that part of the body
    emitted = {}
    for f_ in p.all_functions():
        if not f_.module.name.startswith("baize.asgi"):
            continue
        for n in ast.walk(f_.node):
            if isinstance(n, ast.Dict):
                for k, v in zip(n.keys, n.values):
                    if isinstance(k, ast.Constant) and k.value == "type" and isinstance(v, ast.Constant) and isinstance(v.value, str) and v.value.startswith("http.response."):
                        emitted.setdefault(v.value, (f_, n))
    # the event helpers may build the type from pieces (`{"type": f"http.response.{kind}", **fields}` in a private helper):
    # read it off the send() calls on their paths as well
    for f_ in list(p.module("baize.asgi.helper").functions.values()):
        if f_.name.startswith("_") or not f_.params:
            continue
        try:
            hp_, _hc, _hi = run_paths(p, f_, None)
        except Exception:
            continue
        for pa_ in hp_:
            for e_ in pa_.events:
                if e_.kind == "call" and e_.a == ("param", f_.params[0]) and e_.b and (e_.b[0][0] == "dict" or (e_.b[0][0] == "mut" and e_.b[0][1][0] == "dict")):
                    for k_, v_ in (e_.b[0][1] if e_.b[0][0] == "dict" else e_.b[0][1][1]):
                        if k_ == ("const", "type") and v_[0] == "const" and isinstance(v_[1], str) and v_[1].startswith("http.response."):
                            emitted.setdefault(v_[1], (f_, f_.node))
    cap = nested_fn(afa, "send", passed_as_argument(afa))
    handled = set()
    if cap is not None:
        for n in ast.walk(cap.node):
            if isinstance(n, ast.Compare) and len(n.ops) == 1 and isinstance(n.ops[0], (ast.Eq, ast.In)):
                for x in [n.left] + n.comparators:
                    for c_ in ast.walk(x):
                        if isinstance(c_, ast.Constant) and isinstance(c_.value, str) and c_.value.startswith("http.response."):
                            handled.add(c_.value)
    if cap is not None:
        # a dispatch table at module level that the capture scans (`for name, copier in _BODY_COPIERS: if message["type"] == name`)
        for n in ast.walk(cap.node):
            if isinstance(n, ast.Name) and isinstance(n.ctx, ast.Load) and n.id in cap.module.constants:
                tbl = cap.module.constants[n.id]
                if isinstance(tbl, (ast.Tuple, ast.List, ast.Dict)):
                    for c_ in ast.walk(tbl):
                        if isinstance(c_, ast.Constant) and isinstance(c_.value, str) and c_.value.startswith("http.response."):
                            handled.add(c_.value)
    if cap is None or not emitted:
        rep.undecide("R20.9", "capture callback or emitted message types not found")
    else:
        for t_, (f_, n) in sorted(emitted.items()):
            if t_ in handled:
                rep.ok("R20.9", f"asgi capture handles {t_!r} (emitted by {f_.fq})")
            else:
                rep.violation("R20.9", construct(cap, text=f"unhandled message type {t_}"), where(cap),
                              f"asgi: {f_.fq} can send a {t_!r} message but the capturing send() of NextResponse.from_app has no branch for it: behind a middleware that part of the "
                              "response (the file content, on a server with the zero-copy send extension) is dropped")
    rep.require_instances("R20.9", 3)
    rep.require_instances("R20.1", 1)
    rep.require_instances("R20.2", 8)
    rep.require_instances("R20.3", 3)
    _cached_stream_pipe(p, rep)
    rep.require_instances("R20.4", 7)
    rep.require_instances("R20.5", 8)


def _cached_stream_pipe(p: Program, rep: Report) -> None:
    """The ASGI relay buffers the inner application's body in CachedStream. It is a byte pipe: "end of body" is what push_eof() says,
    never a property of a pushed chunk. The pinned form keeps the bytes in ONE spooled file, where an empty read IS end of data
    (an empty pushed chunk adds nothing). A form that keeps pushed chunks as items (deque / list / queue) and still ends the
    iteration on an empty item stops at the first empty chunk the application sent (`yield b""`, an empty more_body message):
    everything after it is dropped although status and headers (content-length included) were relayed unchanged."""
    try:
        cs = p.cls("baize.asgi.middleware:CachedStream")
    except AnalysisError:
        rep.undecide("R20.4", "asgi: the relay's body buffer CachedStream was not found")
        return
    nx = cs.methods.get("__anext__")
    if nx is None:
        rep.undecide("R20.4", "asgi: CachedStream.__anext__ vanished (the relayed body is iterated in a form outside the table)")
        return
    rep.analysed(nx.fq)
    try:
        paths, _col, _it = run_paths(p, nx, cs)
    except Exception as ex:
        rep.undecide("R20.4", f"asgi: CachedStream.__anext__ not analysable ({ex})")
        return
    rep.cfg_paths += len(paths)
    ends = [pa for pa in paths if pa.exit == "raise" and "StopAsyncIteration" in str(pa.value)]
    if not ends:
        rep.undecide("R20.4", "asgi: CachedStream.__anext__ has no path that ends the iteration")
        return
    bad_ = und_ = 0
    for pa in ends:
        # the falsy value(s) that decide the end on this path
        falsy = [f for f, t in pa.facts if not t and f[0] in ("call", "sub", "local", "await")]
        falsy += [f[1] for f, t in pa.facts if t and f[0] == "not"]
        if not falsy:
            continue
        for f in falsy:
            txt = show(f)
            if ".read" in txt and not any(k in txt for k in (".popleft(", ".pop(", ".get_nowait(", "next(")):
                continue
            if any(k in txt for k in (".popleft(", ".pop(", ".get_nowait(", ".get(", "next(")) or f[0] == "sub":
                bad_ += 1
                rep.violation("R20.4", construct(nx, text=f"end of the relayed body decided by an empty item: {txt[:60]}"), where(nx),
                              f"asgi: CachedStream.__anext__ raises StopAsyncIteration when `{txt[:70]}` is empty - that is a chunk as the inner application pushed it, not a read at the end of a file: "
                              "an empty body chunk in the middle of a response (`yield b\"\"`, an empty more_body message) ends the relayed body and every later chunk is dropped", positive=True)
            else:
                und_ += 1
                rep.undecide("R20.4", f"asgi: CachedStream.__anext__ ends the iteration on `{txt[:70]}` being empty: whether that is an end-of-file read or a pushed chunk is not recognised")
    if not bad_ and not und_:
        rep.ok("R20.4", f"asgi: CachedStream ends the relayed body only on an empty READ of its buffer ({len(ends)} ending path(s)); pushed chunks are never interpreted")
