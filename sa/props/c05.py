"""C05 - every response obeys the gateway protocol (typestate of the emit sequence on all paths)."""
from __future__ import annotations

import ast
from typing import Any, Dict, List, Optional, Sequence, Set, Tuple

from ..collect import callee_is, default_inline as _default_inline
from ..common import ast_text_parts, calls_in, construct, where
from ..flow import ANY_BASE, ANY_EXC, FALSE, NONE, TRUE, Client, Interp, State, Value, contains, show
from ..fold import Folder, NotConst
from ..loader import AnalysisError, ClassInfo, FuncInfo, Program, walk_shallow
from ..report import Report, Undecided
from ..taint import TaintAnalysis, TaintSpec

HOP = {"connection", "keep-alive", "proxy-authenticate", "proxy-authorization", "te", "trailers", "transfer-encoding", "upgrade"}
PURE = {"str", "len", "min", "max", "hasattr", "isinstance", "int", "bool", "range", "iter", "repr", "tuple", "list", "dict", "sorted"}


def concrete_responses(p: Program, side: str) -> List[ClassInfo]:
    base = p.cls(f"baize.{side}.responses:Response")
    out = []
    for m in p.modules.values():
        if not m.name.startswith(f"baize.{side}"):
            continue
        for c in m.classes.values():
            if base not in p.mro(c):
                continue
            abstract = False
            for k in p.mro(c):
                if not isinstance(k, ClassInfo):
                    continue
                for name, f in k.methods.items():
                    if any("abstractmethod" in d for d in f.decorators):
                        impl = p.find_method(c, name)
                        if impl is f:
                            abstract = True
            if not abstract:
                out.append(c)
    return out


# ----------------------------------------------------------------------------- ASGI
class AsgiEmit(Client):
    """Typestate q0 -start-> q1 -body(more)-> q1 -body(final)-> q2; nothing after q2."""

    max_inline_depth = 5

    def __init__(self, p: Program, rep: Report, entry: FuncInfo, cls: ClassInfo) -> None:
        self.p = p
        self.rep = rep
        self.entry = entry
        self.cls = cls
        self.sites: Dict[int, str] = {}
        self.starts: List[Tuple[ast.AST, FuncInfo, Sequence[Value]]] = []
        self.flagged: Set[Tuple[int, str]] = set()

    def init_cs(self):
        return "q0"

    def _volatile_attrs(self) -> Set[str]:
        """attributes of the response that a CONCURRENT task of the same object writes: stored by a method whose call is handed to
        ensure_future / create_task / gather (the disconnect watcher's `_client_closed`): what a path knew about them before an
        await is not known after it"""
        if not hasattr(self, "_vol"):
            vol: Set[str] = set()
            meths = [m for c in self.p.mro(self.cls) if isinstance(c, ClassInfo) for m in c.methods.values()]
            spawned: Set[str] = set()
            for m in meths:
                for c in ast.walk(m.node):
                    if isinstance(c, ast.Call) and ast.unparse(c.func).split(".")[-1] in ("ensure_future", "create_task", "gather", "wait", "run_coroutine_threadsafe"):
                        for a in ast.walk(c):
                            if isinstance(a, ast.Call) and isinstance(a.func, ast.Attribute) and isinstance(a.func.value, ast.Name) and a.func.value.id == "self":
                                spawned.add(a.func.attr)
            for m in meths:
                if m.name in spawned:
                    for n in ast.walk(m.node):
                        if isinstance(n, (ast.Assign, ast.AugAssign, ast.AnnAssign)):
                            for t in (n.targets if isinstance(n, ast.Assign) else [n.target]):
                                if isinstance(t, ast.Attribute) and isinstance(t.value, ast.Name) and t.value.id == "self":
                                    vol.add(t.attr)
            self._vol = vol
        return self._vol

    def after_await(self, interp, node, st):
        vol = self._volatile_attrs()
        if not vol:
            return st
        from ..flow import contains
        cells = [("attr", ("param", "self"), a) for a in vol]
        facts = frozenset((f, t) for f, t in st.facts if not any(contains(f, c) for c in cells))
        st2 = st.drop(lambda k: k[0] == "H" and k[1] in cells)
        return State(st2.env, facts, st2.cs) if facts != st.facts else st2

    def want_inline(self, fi: FuncInfo, interp: Interp, node) -> bool:
        if fi.name in ("send_http_start", "send_http_body", "run_in_threadpool", "open_for_sendfile", "__init__"):
            return False
        if fi.module.name in ("baize.asgi.responses", "baize.asgi.middleware", "baize.asgi.helper"):
            return True
        return _default_inline(fi) and fi.module.name.startswith("baize.")  # private helpers / holders of the shared mixins

    def call_raises(self, interp, callee, node, st):
        if callee[0] == "builtin" and callee[1] in PURE:
            return []
        if callee[0] in ("getitem", "setitem", "delitem", "next"):
            return [ANY_EXC] if callee[0] == "next" else []
        if callee[0] == "attr" and callee[2] in ("asend", "__anext__"):
            return ["StopAsyncIteration", ANY_EXC, ANY_BASE]
        if callee[0] == "attr" and callee[2] in ("encode", "cancel", "empty", "done", "items", "get", "lower", "startswith"):
            return [ANY_EXC] if callee[2] == "encode" else []
        return [ANY_EXC, ANY_BASE] if isinstance(getattr(node, "_parent", None), ast.Await) else [ANY_EXC]

    def yield_raises(self, interp, node):
        return [ANY_BASE]

    def _flag(self, interp: Interp, node: ast.AST, msg: str, st: State) -> State:
        fn = interp.frame.fn
        key = (interp.tag(node), msg)
        if key not in self.flagged:
            self.flagged.add(key)
            self.rep.violation("R5.1", construct(fn, node) + f" [entry {self.cls.name}]", where(fn, node),
                               f"{self.cls.fq}.__call__: {msg}", entry=self.entry.fq, path_facts=sorted(show(f) + "=" + str(t) for f, t in st.facts)[:12])
        return st.with_cs("ERR")

    def _event(self, interp: Interp, kind: str, more: Optional[Value], node: ast.AST, st: State) -> State:
        q = st.cs
        self.sites[interp.tag(node)] = kind
        if q == "ERR":
            return st
        if kind == "start":
            if q == "q0":
                return st.with_cs("q1")
            return self._flag(interp, node, f"a second response-start event is emitted (state {q})", st)
        # body
        if q == "q0":
            return self._flag(interp, node, "a body event is emitted before the response-start event", st)
        if q == "q2":
            return self._flag(interp, node, "a body event is emitted after the final body event (more_body false)", st)
        if more == TRUE:
            return st
        if more == FALSE or more is None:
            return st.with_cs("q2")
        t = interp.truth(more, st)
        if t is True:
            return st
        if t is False:
            return st.with_cs("q2")
        raise Undecided(f"R5.1: more_body of {ast.unparse(node)[:60]} is not a decidable constant on this path ({show(more)})")

    def pre_call_states(self, interp, callee, args, kwargs, node, st):
        # a more_body argument that is a boolean expression of tracked flags is decided both ways
        if callee_is(callee, "send_http_body") and callee[0] == "func":
            more = dict(kwargs).get("more_body", args[2] if len(args) > 2 else FALSE)
            if more[0] != "const" and interp.truth(more, st) is None:
                from ..flow import is_boolish

                if is_boolish(more) or (more[0] == "not"):
                    return [s for _, s in interp.decide(more, st, node)]
        return [st]

    def after_call(self, interp, callee, args, kwargs, node, st):
        if callee_is(callee, "send_http_start") and callee[0] == "func":
            self.starts.append((node, interp.frame.fn, list(args) + [v for _, v in kwargs]))
            return self._event(interp, "start", None, node, st)
        if callee_is(callee, "send_http_body") and callee[0] == "func":
            kw = dict(kwargs)
            more = kw.get("more_body", args[2] if len(args) > 2 else FALSE)
            return self._event(interp, "body", more, node, st)
        if callee == ("param", "send") or (callee[0] == "param" and callee[1] == "send"):
            if not args:
                return st
            m = args[0]
            if m[0] != "dict":
                raise Undecided(f"R5.1: raw send() of a non-literal message {show(m)}")
            items = {k[1]: v for k, v in m[1] if k is not None and k[0] == "const"}
            typ = items.get("type")
            if typ is None or typ[0] != "const":
                raise Undecided("R5.1: raw send() message without a constant type")
            if typ[1] == "http.response.start":
                return self._event(interp, "start", None, node, st)
            if typ[1] in ("http.response.body", "http.response.zerocopysend"):
                return self._event(interp, "body", items.get("more_body", FALSE), node, st)
            return self._flag(interp, node, f"raw send() of message type {typ[1]!r} which is not an HTTP response event", st)
        return st


def check_asgi(p: Program, rep: Report) -> None:
    classes = concrete_responses(p, "asgi")
    if len(classes) < 9:
        rep.undecide("R5.1", f"only {len(classes)} concrete ASGI response classes found (9 on the pinned tree)")
    total_sites: Set[int] = set()
    for c in classes:
        call = p.find_method(c, "__call__")
        if call is None:
            rep.undecide("R5.1", f"{c.fq} has no __call__")
            continue
        client = AsgiEmit(p, rep, call, c)
        it = Interp(p, client)
        out = it.run(call, c)
        rep.analysed(call.fq + f" [as {c.name}]")
        for f in it.inlined:
            rep.analysed(f)
        rep.cfg_paths += len(out.ret) + len(out.exc)
        bad_norm = [s for v, s in out.ret if s.cs not in ("q2", "ERR")]
        if bad_norm:
            st = bad_norm[0]
            rep.violation("R5.1", construct(call, text=f"normal exit in {st.cs}") + f" [entry {c.name}]", where(call),
                          f"{c.fq}.__call__ can return normally in protocol state {st.cs} (" +
                          ("no response-start was sent" if st.cs == "q0" else "no final body event with more_body false was sent") + ")",
                          path_facts=sorted(show(f) + "=" + str(t) for f, t in st.facts)[:14])
        elif out.ret and not client.flagged:
            rep.ok("R5.1", f"{c.name}: {len(out.ret)} normal paths end after exactly start, body*, final body; {len(out.exc)} exceptional paths are legal prefixes",
                   {"emit_sites": len(client.sites), "steps": it.steps})
        if not out.ret:
            rep.undecide("R5.1", f"{c.fq}.__call__ has no normal path")
        total_sites |= set(client.sites)
        # R5.2 header provenance of every start event seen on this entry
        seen = set()
        for node, fn, args in client.starts:
            if id(node) in seen:
                continue
            seen.add(id(node))
            _check_start_args(p, rep, fn, node, args, c)
    rep.extra["asgi_emit_sites"] = len(total_sites)
    rep.require_instances("R5.1", 9)


def _check_start_args(p: Program, rep: Report, fn: FuncInfo, node: ast.AST, args: Sequence[Value], cls: ClassInfo) -> None:
    # args: send, status, headers
    if len(args) < 3:
        rep.violation("R5.2", construct(fn, node), where(fn, node), "response-start is sent without a header list")
        return
    status, headers = args[1], args[2]
    st_txt = show(status)
    if status[0] == "const" and isinstance(status[1], int) or (status[0] == "attr" and status[2] == "status_code"):
        rep.ok("R5.2", f"status {st_txt} is an int constant / status_code attribute")
    else:
        rep.violation("R5.2", construct(fn, text=f"status {st_txt}"), where(fn, node), f"response-start status {st_txt} is not an int constant or a status_code attribute")
    if headers[0] == "call" and callee_is(headers[1], "list_headers") and dict(headers[3]).get("as_bytes") == TRUE:
        rep.ok("R5.2", "headers = list_headers(as_bytes=True) (lower-case byte names from the header mapping)")
        return
    # explicit list: every key expression must be lower-cased before encoding
    elt = None
    if headers[0] == "comp":
        elt = headers[2]
    elif headers[0] == "list" and all(x[0] == "tuple" for x in headers[1]):
        for x in headers[1]:
            _check_pair(rep, fn, node, x)
        return
    if (elt is None or elt[0] != "tuple" or len(elt[1]) != 2) and headers[0] == "call" and headers[1][0] in ("func", "closure") and not callee_is(headers[1], "list_headers"):
        # produced by another repository function (a shared helper that renders an exception's headers ...): not followed here
        rep.undecide("R5.2", f"response-start headers come out of {show(headers[1])[:50]}(...): what that function returns is not followed by the header-provenance rule")
        return
    if elt is None or elt[0] != "tuple" or len(elt[1]) != 2:
        rep.violation("R5.2", construct(fn, text=f"headers {show(headers)[:80]}"), where(fn, node), "response-start headers are neither list_headers(as_bytes=True) nor an explicit list of (name, value) pairs")
        return
    _check_pair(rep, fn, node, elt)


def _check_pair(rep: Report, fn: FuncInfo, node: ast.AST, pair: Value) -> None:
    k, v = pair[1]

    def lowered(x: Value) -> bool:
        if x[0] == "const":
            return isinstance(x[1], (bytes, str)) and x[1] == x[1].lower()
        if x[0] == "call" and x[1][0] == "attr":
            if x[1][2] == "lower":
                return True
            if x[1][2] in ("encode", "strip"):
                return lowered(x[1][1])
        return False

    def is_bytes(x: Value) -> bool:
        return (x[0] == "const" and isinstance(x[1], bytes)) or (x[0] == "call" and x[1][0] == "attr" and x[1][2] == "encode")

    if not lowered(k):
        rep.violation("R5.2", construct(fn, text=f"header name {show(k)}"), where(fn, node),
                      f"a header name reaches http.response.start without being lower-cased ({show(k)}): the error path bypasses the lower-casing header mapping")
    elif not is_bytes(k) or not is_bytes(v):
        rep.violation("R5.2", construct(fn, text=f"header pair {show(pair)}"), where(fn, node), "header name/value are not encoded to bytes")
    else:
        rep.ok("R5.2", f"explicit header pair {show(pair)} is lower-cased and encoded")


# ----------------------------------------------------------------------------- WSGI
class WsgiEmit(Client):
    max_inline_depth = 5

    def __init__(self, p: Program, rep: Report, entry: FuncInfo, cls: ClassInfo) -> None:
        self.p = p
        self.rep = rep
        self.entry = entry
        self.cls = cls
        self.flagged: Set[Tuple[int, str]] = set()
        self.starts: List[Tuple[ast.AST, FuncInfo, Sequence[Value]]] = []
        self.yields: List[Tuple[ast.AST, FuncInfo, Value, str]] = []
        self.n_yield_sites: Set[int] = set()

    def init_cs(self):
        return "q0"

    def want_inline(self, fi, interp, node):
        if fi.name == "__init__":
            return False
        if fi.module.name in ("baize.wsgi.responses", "baize.wsgi.middleware"):
            return True
        return _default_inline(fi) and fi.module.name.startswith("baize.")  # private helpers / holders of the shared mixins

    def call_raises(self, interp, callee, node, st):
        if callee[0] == "builtin" and callee[1] in PURE:
            return []
        if callee[0] in ("getitem", "setitem", "delitem"):
            return []
        return [ANY_EXC]

    def yield_raises(self, interp, node):
        return [ANY_BASE]

    def _flag(self, interp, node, msg, st):
        fn = interp.frame.fn
        key = (interp.tag(node), msg)
        if key not in self.flagged:
            self.flagged.add(key)
            self.rep.violation("R5.3", construct(fn, node) + f" [entry {self.cls.name}]", where(fn, node), f"{self.cls.fq}.__call__: {msg}", entry=self.entry.fq)
        return st.with_cs("ERR")

    def after_call(self, interp, callee, args, kwargs, node, st):
        if callee == ("param", "start_response"):
            self.starts.append((node, interp.frame.fn, list(args)))
            if st.cs == "q0":
                return st.with_cs("q1")
            if st.cs == "q1":
                return self._flag(interp, node, "start_response is called a second time", st)
        return st

    def on_yield(self, interp, val, node, st):
        self.n_yield_sites.add(interp.tag(node))
        self.yields.append((node, interp.frame.fn, val, "yield"))
        if st.cs == "q0":
            return self._flag(interp, node, "body bytes are yielded before start_response was called", st)
        return st

    def on_yield_from(self, interp, val, node, st):
        self.n_yield_sites.add(interp.tag(node))
        self.yields.append((node, interp.frame.fn, val, "yield_from"))
        if st.cs == "q0":
            return self._flag(interp, node, "body is produced before start_response was called", st)
        return st


def _bytes_typed(p: Program, fn: FuncInfo, v: Value, cls: ClassInfo) -> Optional[bool]:
    if v[0] == "const":
        return isinstance(v[1], bytes)
    if v[0] == "fstr":
        return False  # an f-string is str, never bytes
    if v[0] == "call":
        cal = v[1]
        if cal[0] == "attr" and cal[2] == "encode":
            return True
        if cal[0] == "attr" and cal[2] == "read" and cal[1][0] == "enter":
            op = cal[1][1]
            if op[0] == "call" and op[1] == ("builtin", "open"):
                mode = op[2][1] if len(op[2]) > 1 else dict(op[3]).get("mode")
                return mode is not None and mode[0] == "const" and "b" in str(mode[1])
        if cal[0] in ("func", "closure"):
            try:
                fi = p.func(cal[1])
            except AnalysisError:
                return None
            r = fi.node.returns
            return r is not None and ast.unparse(r) == "bytes"
        if cal[0] == "unpack" and cal[1][0] == "call" and cal[1][1][0] == "func":
            try:
                fi = p.func(cal[1][1][1])
            except AnalysisError:
                return None
            r = fi.node.returns
            if isinstance(r, ast.Subscript) and isinstance(r.slice, ast.Tuple) and cal[2] < len(r.slice.elts):
                e = r.slice.elts[cal[2]]
                if isinstance(e, ast.Subscript) and ast.unparse(e.value).endswith("Callable") and isinstance(e.slice, ast.Tuple):
                    return ast.unparse(e.slice.elts[-1]) == "bytes"
        if cal[0] == "attr" and cal[2] == "render":
            m = p.find_method(cls, "render")
            return m is not None and m.node.returns is not None and ast.unparse(m.node.returns) == "bytes"
        if cal[0] == "func":
            return None
    return None


def check_wsgi(p: Program, rep: Report) -> None:
    classes = concrete_responses(p, "wsgi")
    if len(classes) < 9:
        rep.undecide("R5.3", f"only {len(classes)} concrete WSGI response classes found (9 on the pinned tree)")
    all_yields = 0
    for c in classes:
        call = p.find_method(c, "__call__")
        client = WsgiEmit(p, rep, call, c)
        it = Interp(p, client)
        out = it.run(call, c)
        rep.analysed(call.fq + f" [as {c.name}]")
        for f in it.inlined:
            rep.analysed(f)
        rep.cfg_paths += len(out.ret) + len(out.exc)
        bad = [s for v, s in out.ret if s.cs == "q0"]
        if bad:
            rep.violation("R5.3", construct(call, text="normal exit without start_response") + f" [entry {c.name}]", where(call),
                          f"{c.fq}.__call__ can finish normally without having called start_response")
        elif out.ret and not client.flagged:
            rep.ok("R5.3", f"{c.name}: start_response exactly once before any body on all {len(out.ret)} normal paths",
                   {"yield_sites": len(client.n_yield_sites), "steps": it.steps})
        # arguments of start_response
        seen = set()
        for node, fn, args in client.starts:
            if id(node) in seen:
                continue
            seen.add(id(node))
            if len(args) < 2:
                rep.violation("R5.3", construct(fn, node), where(fn, node), "start_response called without status and headers")
                continue
            status, headers = args[0], args[1]
            if status[0] == "sub" and status[1][0] == "global" and status[1][1].endswith("StatusStringMapping"):
                rep.ok("R5.3", f"status line = StatusStringMapping[{show(status[2])}]")
            else:
                rep.violation("R5.3", construct(fn, text=f"status {show(status)}"), where(fn, node), "the status line is not taken from StatusStringMapping ('NNN reason' with the unknown-code fallback)")
            if headers[0] == "call" and callee_is(headers[1], "list_headers") and dict(headers[3]).get("as_bytes") == FALSE:
                rep.ok("R5.3", "headers = list_headers(as_bytes=False)")
            elif headers[0] == "list" and len(headers[1]) == 1 and headers[1][0][0] == "star" and _from_http_exception(p, headers[1][0]):
                rep.ok("R5.3", "error path: headers = [*exception.headers.items()] (constants of the range exceptions)")
            elif headers[0] == "call" and headers[1][0] in ("func", "closure") and not callee_is(headers[1], "list_headers"):
                rep.undecide("R5.3", f"start_response headers come out of {show(headers[1])[:50]}(...): what that function returns is not followed by the header-provenance rule")
            else:
                rep.violation("R5.3", construct(fn, text=f"headers {show(headers)[:80]}"), where(fn, node), "start_response headers are neither list_headers(as_bytes=False) nor the exception's constant headers")
        # R5.4 bytes typing of yields
        seen = set()
        for node, fn, val, kind in client.yields:
            if id(node) in seen:
                continue
            seen.add(id(node))
            all_yields += 1
            if kind == "yield_from":
                if val[0] == "attr" and val[2] == "iterable":
                    rep.ok("R5.4", f"{fn.fq}: yield from the user iterable (annotated Iterable[bytes])")
                else:
                    rep.violation("R5.4", construct(fn, node), where(fn, node), f"yield from {show(val)[:60]}: not the response's own iterable")
                continue
            t = _bytes_typed(p, fn, val, c)
            if t is True:
                rep.ok("R5.4", f"{fn.fq}: yields bytes ({show(val)[:50]})")
            elif t is False:
                rep.violation("R5.4", construct(fn, node), where(fn, node), f"a non-bytes value is yielded to the WSGI server ({show(val)[:60]})")
            else:
                rep.undecide("R5.4", f"{fn.fq}: cannot type {show(val)[:80]} as bytes")
        # non-generator __call__ returning an iterable
        for v, s in out.ret:
            if v != NONE:
                if v[0] == "tuple" and all(x[0] == "const" and isinstance(x[1], bytes) for x in v[1]):
                    rep.ok("R5.4", f"{c.name}: returns a tuple of bytes constants")
                elif v[0] in ("tuple", "list") and any(x[0] == "const" and not isinstance(x[1], bytes) for x in v[1]):
                    rep.violation("R5.4", construct(call, text=f"return {show(v)}"), where(call), "a non-bytes item is returned to the WSGI server")
    rep.extra["wsgi_yield_sites"] = all_yields
    rep.require_instances("R5.3", 9)
    rep.require_instances("R5.4", 10)
    # StatusStringMapping shape
    mod = p.module("baize.wsgi.responses")
    ssm = mod.constants.get("StatusStringMapping")
    if ssm is None:
        raise AnalysisError("StatusStringMapping vanished")
    ok = False
    # the factory of the table: a lambda, or a module-level function with a single return; its text must be
    # '<the code> <non-empty reason>' in whichever formatting idiom
    fac_arg = fac_body = None
    if isinstance(ssm, ast.Call) and len(ssm.args) >= 1:
        fac = ssm.args[0]
        if isinstance(fac, ast.Lambda) and fac.args.args:
            fac_arg, fac_body = fac.args.args[0].arg, fac.body
        elif isinstance(fac, ast.Name) and fac.id in mod.functions:
            ff = mod.functions[fac.id]
            body_ = [st for st in ff.node.body if not (isinstance(st, ast.Expr) and isinstance(st.value, ast.Constant))]
            if len(body_) == 1 and isinstance(body_[0], ast.Return) and body_[0].value is not None and ff.params and not ff.decorators:
                fac_arg, fac_body = ff.params[0], body_[0].value
    if fac_body is not None:
        parts = ast_text_parts(p, mod, fac_body)
        if parts and len(parts) == 2 and parts[0] in (("param", fac_arg), ("fmt", ("param", fac_arg), "", "d")) and parts[1][0] == "const" and isinstance(parts[1][1], str) \
                and parts[1][1].startswith(" ") and len(parts[1][1].strip()) > 0:
            ok = True
    if ok:
        rep.ok("R5.3", "StatusStringMapping falls back to f'{status} <reason>' for unknown codes")
    elif fac_body is None and not (isinstance(ssm, ast.Call) and ast.unparse(ssm.func).split(".")[-1] == "defaultdict"):
        # the table is not `defaultdict(<factory>, ...)` written in place (it is built by a helper, a loop at import time ...):
        # where its fallback for unknown codes comes from is not read by this rule
        rep.undecide("R5.3", f"StatusStringMapping is built by `{ast.unparse(ssm)[:60]}`: the fallback for unknown status codes is not recognised")
    else:
        rep.violation("R5.3", construct("baize.wsgi.responses:StatusStringMapping", text=ast.unparse(ssm)[:80]), f"{mod.relpath}:{ssm.lineno}", "unknown status codes do not get an 'NNN reason' status line")


def _from_http_exception(p: Program, v: Value) -> bool:
    """v derives from `<caught exception>.headers` where every caught class is an HTTPException."""
    from ..flow import subterms

    base = p.cls("baize.exceptions:HTTPException")
    for t in subterms(v):
        if t[0] == "attr" and t[2] == "headers" and t[1][0] == "exc":
            names = t[1][1].split("|")
            try:
                return all(":" in n and base in p.mro(p.cls(n)) for n in names)
            except AnalysisError:
                return False
    return False


# ----------------------------------------------------------------------------- shared rules
def check_helpers(p: Program, rep: Report) -> None:
    """send_http_start / send_http_body build exactly the two event dicts (single place)."""
    mod = p.module("baize.asgi.helper")
    for name, typ, keys in (("send_http_start", "http.response.start", {"type", "status"}), ("send_http_body", "http.response.body", {"type", "body", "more_body"})):
        fn = mod.functions.get(name)
        if fn is None:
            raise AnalysisError(f"baize.asgi.helper.{name} vanished")
        rep.analysed(fn.fq)
        # decided on the paths of the helper (private helpers inlined, **kwargs / dict spreads merged): every returning path
        # performs exactly one send() of a dict display with the literal type and the required keys
        from ..collect import run_paths as _run_paths

        try:
            hpaths, _hc, _hi = _run_paths(p, fn, None)
        except Exception as e_:
            rep.undecide("R5.1", f"{name} is not analysable ({e_})")
            continue
        rep.cfg_paths += len(hpaths)
        good = False
        sparam = fn.params[0] if fn.params else "send"
        for pa in hpaths:
            if pa.exit != "return":
                continue
            sends = [e for e in pa.events if e.kind == "call" and e.a == ("param", sparam)]
            if len(sends) != 1:
                rep.violation("R5.1", construct(fn, text=f"{len(sends)} send calls"), where(fn), f"{name} calls send() {len(sends)} times (exactly one event per helper call expected)")
                continue
            m = sends[0].b[0] if sends[0].b else None
            if m is not None and m[0] == "mut" and m[1][0] == "dict":
                # a dict display that was completed by item stores / update({...}) before it is sent: the display plus those stores
                items_ = list(m[1][1])
                for e_ in pa.events:
                    if e_ is sends[0]:
                        break
                    if e_.kind == "store" and e_.a[0] == "sub" and e_.a[1] in (m, m[1]) and e_.a[2][0] == "const":
                        items_ = [(k_, v_) for k_, v_ in items_ if k_ != e_.a[2]] + [(e_.a[2], e_.b)]
                m = ("dict", tuple(items_))
            if m is None or m[0] != "dict" or any(k is None or k[0] != "const" for k, _v in m[1]):
                rep.undecide("R5.1", f"{name}: the event handed to send() is not a dict display with constant keys ({show(m)[:60] if m else 'nothing'})")
                continue
            ks = {k[1]: v for k, v in m[1]}
            if ks.get("type") != ("const", typ) or not keys <= set(ks):
                rep.violation("R5.1", construct(fn, text="event dict"), where(fn), f"{name} no longer builds a {typ!r} event with keys {sorted(keys)}")
                continue
            good = True
            if name == "send_http_body" and ks["more_body"] != ("param", "more_body"):
                rep.violation("R5.1", construct(fn, text="more_body not forwarded"), where(fn), "send_http_body does not forward its more_body argument")
            if name == "send_http_start" and not (ks["status"][0] == "param" and ks["status"][1] in fn.params):
                rep.violation("R5.1", construct(fn, text="status not forwarded"), where(fn), "send_http_start does not forward its status argument")
        if name == "send_http_body":
            dflt = {a.arg: d_ for a, d_ in zip(fn.node.args.kwonlyargs, fn.node.args.kw_defaults)}
            d0 = dflt.get("more_body")
            if d0 is None:
                pos = fn.node.args.args
                dd = fn.node.args.defaults
                d0 = {a.arg: x for a, x in zip(pos[len(pos) - len(dd):], dd)}.get("more_body")
            if not (isinstance(d0, ast.Constant) and d0.value is False):
                rep.violation("R5.1", construct(fn, text="more_body default"), where(fn), "send_http_body's more_body default is not False: every plain final body event would keep the response open")
        if good:
            rep.ok("R5.1", f"{name} builds the {typ!r} event with keys {sorted(keys)}")
        elif not any(v.construct.startswith(construct(fn, text="")[:len(fn.fq)]) for v in rep.violations):
            rep.violation("R5.1", construct(fn, text="event dict"), where(fn), f"{name} no longer builds a {typ!r} event with keys {sorted(keys)}")
    # who may emit: only response classes / helper / websocket / middleware define code that calls send()
    allowed = {"baize.asgi.responses", "baize.asgi.helper", "baize.asgi.websocket", "baize.asgi.middleware"}
    for fn in p.all_functions():
        if not fn.module.name.startswith("baize.asgi") or fn.module.name in allowed:
            continue
        for c in calls_in(fn):
            r = p.resolve_call(fn, c)
            if isinstance(r, FuncInfo) and r.name in ("send_http_start", "send_http_body"):
                rep.violation("R5.1", construct(fn, c), where(fn, c), "a non-response module emits response events directly (bypasses the typestate-checked response classes)")
            if isinstance(c.func, ast.Name) and c.func.id == "send" and "send" in (fn.params + (fn.parent.params if fn.parent else [])):
                rep.violation("R5.1", construct(fn, c), where(fn, c), "a non-response module calls send() directly")
    # Headers.__init__ lower-cases names (list_headers reads this mapping)
    hd = p.cls("baize.datastructures:Headers")
    init = hd.methods["__init__"]
    from ..common import with_helpers as _wh5
    lowered = any(isinstance(n, ast.Assign) and isinstance(n.value, ast.Call) and isinstance(n.value.func, ast.Attribute) and n.value.func.attr == "lower"
                  and isinstance(n.targets[0], ast.Name) and isinstance(n.value.func.value, ast.Name) and n.targets[0].id == n.value.func.value.id for f_ in _wh5(p, init) for n in ast.walk(f_.node))
    if lowered:
        rep.ok("R5.2", "Headers.__init__ lower-cases every name before storing")
    else:
        rep.violation("R5.2", construct(init, text="key.lower()"), where(init), "Headers.__init__ stores header names without lower-casing")
    lh = p.cls("baize.responses:BaseResponse").methods["list_headers"]
    consts = [n.value for n in ast.walk(lh.node) if isinstance(n, ast.Constant) and isinstance(n.value, (str, bytes)) and not isinstance(getattr(n, "_parent", None), ast.Expr)]
    for cst in consts:
        if isinstance(cst, (bytes, str)) and cst and cst not in ("latin-1", "latin1", "ascii") and cst != cst.lower():
            rep.violation("R5.2", construct(lh, text=f"{cst!r}"), where(lh), f"list_headers emits the header name {cst!r} which is not lower-case")


def check_hop_by_hop(p: Program, rep: Report) -> None:
    F = Folder(p)
    n = 0
    for m in p.modules.values():
        if not (m.name.startswith("baize.wsgi") or m.name in ("baize.responses", "baize.staticfiles")):
            continue
        for node in ast.walk(m.tree):
            key = None
            if isinstance(node, ast.Dict):
                ks = [k.value for k in node.keys if isinstance(k, ast.Constant) and isinstance(k.value, str)]
                if any(k.lower() in ("content-type", "cache-control", "content-length", "etag", "location") for k in ks) or _is_headers_ctx(node):
                    for k in node.keys:
                        if isinstance(k, ast.Constant) and isinstance(k.value, str):
                            n += 1
                            if k.value.lower() in HOP:
                                key = k
            elif isinstance(node, ast.Subscript) and isinstance(node.ctx, ast.Store) and "headers" in ast.unparse(node.value).lower() and isinstance(node.slice, ast.Constant) and isinstance(node.slice.value, str):
                n += 1
                if node.slice.value.lower() in HOP:
                    key = node.slice
            elif isinstance(node, ast.Call) and isinstance(node.func, ast.Attribute) and node.func.attr in ("append", "setdefault") and "headers" in ast.unparse(node.func.value).lower() and node.args and isinstance(node.args[0], ast.Constant) and isinstance(node.args[0].value, str):
                n += 1
                if node.args[0].value.lower() in HOP:
                    key = node.args[0]
            if key is not None:
                rep.violation("R5.5", construct(m.name, text=f"header {key.value!r}"), f"{m.relpath}:{key.lineno}",
                              f"the hop-by-hop header {key.value!r} is set on a WSGI path (PEP 3333 forbids it)")
    rep.obligations += n
    rep.discharged += n
    rep.rule_instances.setdefault("R5.5", {"found": 0, "min": 0})["found"] += n
    rep.require_instances("R5.5", 10)


def _is_headers_ctx(d: ast.Dict) -> bool:
    par = getattr(d, "_parent", None)
    if isinstance(par, (ast.Assign, ast.AnnAssign)):
        tgts = par.targets if isinstance(par, ast.Assign) else [par.target]
        return any("headers" in ast.unparse(t).lower() for t in tgts)
    return False


def check_filename(p: Program, rep: Report) -> None:
    mixin = p.cls("baize.responses:FileResponseMixin")
    fn = mixin.methods.get("generate_common_headers")
    if fn is None:
        raise AnalysisError("generate_common_headers vanished")
    rep.analysed(fn.fq)

    class Spec(TaintSpec):
        def param_source(self, f, name):
            if f is fn and name in ("download_name", "filepath"):
                return name
            return None

        def sanitiser(self, f, call, resolved):
            if resolved == ("ext", "urllib.parse.quote"):
                return True
            if isinstance(call.func, ast.Attribute) and call.func.attr in ("encode", "decode") and call.args and isinstance(call.args[0], ast.Constant) and call.args[0].value == "ascii":
                return True
            return False

    ta = TaintAnalysis(p, Spec())
    env = ta.function_env(fn, mixin)
    sinks = 0
    for node in walk_shallow(fn.node):
        val = None
        if isinstance(node, ast.Assign) and isinstance(node.targets[0], ast.Subscript) and "headers" in ast.unparse(node.targets[0].value):
            val = node.value
            key = ast.unparse(node.targets[0].slice)
        elif isinstance(node, ast.Dict) and _is_headers_ctx(node):
            for k, v in zip(node.keys, node.values):
                o = ta.expr(fn, v, env, mixin)
                sinks += 1
                if o:
                    rep.violation("R5.6", construct(fn, text=f"{ast.unparse(k)} <- {', '.join(sorted(o))}"), where(fn, v), "file-name text reaches a header value without percent-encoding")
            continue
        if val is None:
            continue
        sinks += 1
        o = ta.expr(fn, val, env, mixin)
        if o:
            rep.violation("R5.6", construct(fn, text=f"{key} <- {', '.join(sorted(o))}"), where(fn, node),
                          "file-name text reaches a header value without percent-encoding: a non-ASCII download name is not Latin-1/ASCII header text "
                          "(UnicodeEncodeError in list_headers(as_bytes=True) on ASGI; non-Latin-1 native string on WSGI)", origins=sorted(o))
        else:
            rep.ok("R5.6", f"header {key}: file-name text is quoted before it enters the value")
    if sinks == 0:
        rep.undecide("R5.6", "no header sink found in generate_common_headers")
    # the other header built from caller text: Location. It is percent-encoded (pure ASCII) on every path of both constructors
    from .c13 import redirect_location_provenance

    redirect_location_provenance(p, rep, "R5.6")


def check_cookie_lines(p: Program, rep: Report) -> None:
    """set-cookie lines are header values too: no control characters may reach them (shared table analysis with C13)."""
    from .cookie_common import DS, emitted, extract_writer

    w = extract_writer(p, rep, "R5.7")  # a leaky unquoted-path predicate is reported from inside
    bad = [c for c in range(256) if any(ord(x) < 0x20 or ord(x) == 0x7F for x in emitted(w, c))]
    badl = [ch for ch in w.legal if ord(ch) < 0x20 or ord(ch) == 0x7F]
    if bad or badl:
        rep.violation("R5.7", construct(f"{DS}:{w.translator_name}", text=f"control characters emitted for {bad[:6]} {badl[:6]}"), w.translator_loc,
                      "a cookie name/value can put a raw control character into the set-cookie header line")
    else:
        rep.ok("R5.7", "cookie escaper: no code point 0-255 is emitted as a raw control character (quoted and unquoted path)")


def run(p: Program, rep: Report, tier: str) -> None:
    rep.explanation = (
        "Typestate analysis of the emit sequence on all paths (normal and exceptional) of every concrete response "
        "class's __call__, with the handlers, the zero-copy/emulated sendfile closures and render_stream inlined "
        "(call-site constants for more_body; boolean flags tracked path-sensitively): ASGI q0 -start-> q1 -body(more)-> "
        "q1 -body(final)-> q2, nothing after q2, every normal exit in q2, every exceptional exit a legal prefix; "
        "WSGI start_response exactly once before the first yield, status from StatusStringMapping, headers from "
        "list_headers or the range-exception constants, every yielded expression bytes-typed. Plus header-name "
        "provenance on ASGI (lower-case), no hop-by-hop header constants on WSGI paths, file-name text percent-"
        "encoded before entering a header, and the two event-building helpers. NOT decided: user-supplied header values."
    )
    rep.assume("a send()/start_response call that raises is treated as not having delivered its event (legal-prefix check uses the pre-call state)")
    rep.assume("user iterables/annotations are trusted (Iterable[bytes]); render() return annotations are trusted")
    check_helpers(p, rep)
    check_asgi(p, rep)
    check_wsgi(p, rep)
    check_hop_by_hop(p, rep)
    check_filename(p, rep)
    check_cookie_lines(p, rep)
    rep.require_instances("R5.2", 10)
    # ---------------------------------------------------------------- R5.8 no second response after a failed one
    from .stream_common import no_response_after_failed_response
    for kind, fn_, node, cons, msg in no_response_after_failed_response(p):
        if kind == "ok":
            rep.ok("R5.8", msg)
        elif kind == "undecided":
            rep.undecide("R5.8", msg)
        else:
            rep.violation("R5.8", construct(fn_, text=cons), where(fn_, node), msg)
    rep.require_instances("R5.8", 1)
    # ---------------------------------------------------------------- R5.9 the application's iterable is never dropped (WSGI)
    from .stream_common import wsgi_iterable_never_dropped
    for kind, fn_, node, cons, msg in wsgi_iterable_never_dropped(p, rep):
        if kind == "ok":
            rep.ok("R5.9", msg)
        elif kind == "undecided":
            rep.undecide("R5.9", msg)
        else:
            rep.violation("R5.9", construct(fn_, text=cons), where(fn_, node), msg)
    rep.require_instances("R5.9", 5)

    # ---------------------------------------------------------------- R5.10 nobody but the response calls the server's start_response (WSGI)
    # The request object keeps the server's callback (`self._start_response = start_response`) so that a response can be
    # started later - by the ONE call in the response's __call__. Any other call of the stored callback (a middleware's capture
    # function forwarding `exc_info`, a helper "flushing early") is a second start of the same response.
    from ..common import stored_callback_calls
    inits = [c_.methods["__init__"] for m_ in ("baize.wsgi.requests", "baize.wsgi.middleware") for c_ in p.module(m_).classes.values() if "__init__" in dict.keys(c_.methods)]
    wsgi_fns = [f_ for m_ in p.modules.values() if m_.name.startswith("baize.wsgi") or m_.name in ("baize.requests", "baize.responses") for f_ in m_.all_funcs]
    calls10 = stored_callback_calls(p, inits, "start_response", wsgi_fns)
    for f_, c_, attr_ in calls10:
        rep.violation("R5.10", construct(f_, text=f"call of the stored server callback .{attr_}(...)"), where(f_, c_),
                      f"{f_.fq} calls the server's start_response kept on the request (`.{attr_}`): the response built afterwards calls start_response again - two starts for one request "
                      "(e.g. an inner application's start_response(..., exc_info) forwarded by the middleware)")
    if not calls10:
        rep.ok("R5.10", f"the server callback stored by {len(inits)} constructor(s) is never called from package code (only handed on / compared)")
    rep.require_instances("R5.10", 1)
