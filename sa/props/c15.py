"""C15 - multipart limits are exact and enforced with bounded buffering (structural clauses)."""
from __future__ import annotations

import ast
from typing import List, Optional

from ..collect import run_paths
from ..common import calls_in, construct, where
from ..flow import show, subterms
from ..loader import AnalysisError, FuncInfo, Program, walk_shallow
from ..report import Report
from ..sibling import tier_a_equal
from .c12 import http_status_of
from ..fold import Folder
from .mp_common import Effect, helper_effects, helpers

D = "isinstance(event, Data)"


def run(p: Program, rep: Report, tier: str) -> None:
    rep.explanation = (
        "R15.1 limit discipline in both helpers: the field-byte counter grows by len(event.data) on exactly the paths where "
        "the data goes to the in-memory field (and on no file path) and the strict comparison `> max_form_memory_size` "
        "(guarded by `is not None`) follows the increment in the same Data iteration, so an over-limit field is rejected on "
        "the event that crosses the limit; the part counter grows by exactly 1 on exactly the last-Data paths (field and "
        "file) and is compared with strict `>`; both failures raise RequestEntityTooLarge (413 folded from its constructor). "
        "R15.2 sync/async agreement. R15.3 the check is in the same iteration as the accumulation. R15.4 bounded hold-back: the "
        "amount the decoder keeps while no delimiter is found must be capped independently of the data (search only a tail / "
        "clamp with max(i, len(buffer) - K)); rindex over the whole buffer with no clamp is unbounded (known finding F23). "
        "R15.5 file data is written per event. R15.6 a part is a file (streamed, not counted) exactly when its Content-Disposition has "
        "a filename parameter, an empty one included. NOT decided: the numeric bound itself for all chunkings; spooled-file roll-over."
    )
    F = Folder(p)
    hs = helpers(p)
    st = http_status_of(p, F, "baize.exceptions:RequestEntityTooLarge")
    if st == 413:
        rep.ok("R15.1", "RequestEntityTooLarge constructs status 413")
    else:
        rep.violation("R15.1", construct("baize.exceptions:RequestEntityTooLarge", text=f"status {st}"), "baize/exceptions.py", f"RequestEntityTooLarge carries status {st}, not 413")
    for name, fn in hs.items():
        rep.analysed(fn.fq)
        eff = helper_effects(fn)

        def one(kind: str, pred) -> List[Effect]:
            return [e for e in eff if e.kind == kind and pred(e)]

        # ---- counters start at zero
        from .mp_common import _roles
        have_roles = set(_roles(fn).values())
        for cnt in ("form_parts_count", "form_memory_size_count"):
            if cnt not in have_roles:
                # the counter may live in a holder object: its constructor must start it at 0
                from .mp_iter import _holders, _find_loop, iteration as _iteration
                _it = _iteration(p, fn)
                slot = next((k for k, v_ in _it.roles.items() if v_ == cnt and "__" in k), None)
                if slot is not None:
                    hname, attr = slot.split("__", 1)
                    try:
                        lp_ = _find_loop(p, fn)[0]
                        hci = next((ci_ for n_, ci_, _c in _holders(p, fn, lp_) if n_ == hname), None)
                    except Exception:
                        hci = None
                    init_ = p.find_method(hci, "__init__") if hci is not None else None
                    zero = init_ is not None and any(isinstance(n_, (ast.Assign, ast.AnnAssign)) and getattr(n_, "value", None) is not None and isinstance(n_.value, ast.Constant) and n_.value.value == 0 and type(n_.value.value) is int
                                                   and ast.unparse(n_.targets[0] if isinstance(n_, ast.Assign) else n_.target) == f"{init_.params[0]}.{attr}" for n_ in ast.walk(init_.node))
                    if init_ is None and hci is not None:
                        # a (data)class without a written __init__: the field's default is its initial value, unless the
                        # constructor call gives the field
                        dflt = hci.attrs.get(attr)
                        ctor_ = next((c_ for n_, _ci, c_ in _holders(p, fn, lp_) if n_ == hname), None)
                        fields_ = list(hci.ann.keys())
                        given_ = set(fields_[:len(ctor_.args)]) | {k_.arg for k_ in ctor_.keywords} if ctor_ is not None else set()
                        zero = isinstance(dflt, ast.Constant) and type(dflt.value) is int and dflt.value == 0 and attr not in given_
                    if zero:
                        rep.ok("R15.1", f"{name}: {cnt} (kept as {hname}.{attr}) starts at 0")
                    else:
                        rep.violation("R15.1", construct(fn, text=f"{cnt} initial value"), where(fn), f"{name}: {cnt} (kept as {hname}.{attr}) does not start at 0")
                continue  # (not a local of the helper and not found in a holder: reported as undecided by the per-event rules below)
            ini = one("assign", lambda e: e.text == f"{cnt} = 0" and not e.guards)
            if ini:
                rep.ok("R15.1", f"{name}: {cnt} starts at 0")
            else:
                rep.violation("R15.1", construct(fn, text=f"{cnt} initial value"), where(fn), f"{name}: {cnt} does not start at 0")
        # ---- the counters, their limits and the file sink: decided on the paths of one loop iteration (mp_iter)
        from .mp_iter import helper_rules
        for rule_, kind_, cons_, msg_ in helper_rules(p, name, fn):
            if not rule_.startswith("R15."):
                continue
            if kind_ == "ok":
                rep.ok(rule_, msg_)
            elif kind_ == "undecided":
                rep.undecide(rule_, msg_)
            else:
                rep.violation(rule_, construct(fn, text=cons_), where(fn), msg_)
        # defaults of the limits
        a = fn.node.args
        dm = {x.arg: (ast.unparse(d) if d is not None else None) for x, d in zip(a.kwonlyargs, a.kw_defaults)}
        rep.samples.append({"rule": "R15.1", "obligation": f"{name} limit defaults", "detail": {k: dm.get(k) for k in ("max_form_parts", "max_form_memory_size")}})
    if tier_a_equal(hs["parse_stream"], hs["parse_async_stream"]):
        rep.ok("R15.2", "sync and async helpers are equal after normalisation")
    else:
        rep.violation("R15.2", construct("baize.multipart_helper:parse_stream|parse_async_stream", text="sibling mismatch"), "baize/multipart_helper.py", "the sync and async helpers enforce the limits differently")
    rep.require_instances("R15.1", 13)

    # ---------------------------------------------------------------- R15.6 what counts as "non-file field data"
    from .mp_common import file_field_decision, header_line_split, parse_header_keeps_parameters, parse_header_splits_at_first_equals, parseparam_quote_parity

    for kind, fn_, node, cons, msg, facts in file_field_decision(p, rep) + parseparam_quote_parity(p, rep) + parse_header_keeps_parameters(p, rep) + parse_header_splits_at_first_equals(p, rep) + header_line_split(p, rep):
        if kind == "ok":
            rep.ok("R15.6", msg)
        elif kind == "undecided":
            rep.undecide("R15.6", msg)
        else:
            rep.violation("R15.6", construct(fn_, text=cons), where(fn_, node), msg, path_facts=facts)
    rep.require_instances("R15.6", 4)

    # ---------------------------------------------------------------- R15.4 bounded hold-back
    dec = p.cls("baize.multipart:MultipartDecoder")
    ln = dec.methods.get("last_newline")
    ne = dec.methods.get("next_event")
    if ln is None or ne is None:
        raise AnalysisError("MultipartDecoder.last_newline/next_event vanished")
    rep.analysed(ln.fq, ne.fq)
    from .c01 import _clamped
    from .mp_common import data_branch_emissions
    from ..collect import callee_is

    BUF = ("attr", ("param", "self"), "buffer")
    ems, npaths = data_branch_emissions(p)
    rep.cfg_paths += npaths
    n_hold = 0
    from . import c01 as _c01
    from .c01 import _pending_bound
    from .mp_common import pending_idiom
    _c01._PROGRAM[:] = [p]
    proofs = None
    for pa, emit_bound, del_bound, more, no_boundary, node, fnn, has_del in ems:
        if not more or emit_bound is None:
            continue
        n_hold += 1
        pk = _pending_bound(emit_bound, pa, BUF)
        if pk is not None:
            proofs = proofs if proofs is not None else pending_idiom(p)
            pr = proofs.get(pk[0])
            if pr is None:
                rep.undecide("R15.4", f"hold-back via self.{pk[0]}.search(buffer): pattern not foldable")
            elif not pr[0]:
                from .. import rx as _rx
                wtxt = _rx.show(pr[1], True) if pr[1] is not None else "a match that does not start with a line break"
                rep.violation("R15.4", construct(ne, text=f"pending pattern self.{pk[0]} misses a delimiter prefix"), where(ne, node),
                              f"the partial-delimiter pattern self.{pk[0]} does not match {wtxt}, which is the beginning of a delimiter: when a chunk ends there the partial delimiter goes out as "
                              "field data and the real delimiter is never seen - two parts merge, so the part count and the field bytes counted against the limits depend on the chunking "
                              "(a form over max_form_parts is accepted for some chunkings)", positive=True)
            elif pr[2] is None:
                rep.violation("R15.4", construct(ne, text=f"unbounded pending pattern self.{pk[0]}"), where(ne, node), f"the partial-delimiter pattern self.{pk[0]} matches arbitrarily long texts that do not contain the delimiter: the hold-back is not bounded")
            else:
                rep.ok("R15.4", f"{'boundary text buffered, ' if not no_boundary else ''}hold-back = the trailing partial delimiter matched by self.{pk[0]}: for content without the delimiter at most len(boundary) + {pr[2] - 1} bytes "
                                "(longest word of the pattern's language that lacks 'line break -- boundary', boundary counted as one symbol)")
            continue
        cl = _clamped(emit_bound, BUF)
        tail_search = any(t[0] == "call" and t[1][0] == "attr" and t[1][2] in ("rindex", "rfind") and len(t[2]) >= 2 for t in subterms(emit_bound))
        if cl is not None and cl[1] and no_boundary:
            rep.ok("R15.4", f"no boundary buffered: hold-back start is max(last_newline(), len(buffer) - len(boundary) - {cl[0]}): at most len(boundary) + {cl[0]} bytes stay buffered")
        elif tail_search:
            rep.ok("R15.4", "no boundary buffered: the line-break search is restricted to a tail of the buffer")
        elif cl is not None and not no_boundary:
            rep.violation("R15.4", construct(ne, text="clamp while a boundary is buffered"), where(ne, node), "the clamp is applied although a complete '--boundary' is buffered (unsound, see C01 R1.3)")
        else:
            rep.violation("R15.4", construct(ne, text=f"unbounded hold-back{'' if no_boundary else ' (boundary text buffered)'}: {show(emit_bound)[:70]}"), where(ne, node),
                          ("while no boundary is buffered" if no_boundary else "while the boundary text is buffered without being a complete delimiter (e.g. content CR + 'x--boundary' + a long run without line break)") + ", a path emits data only up to the earliest of the last CR / last LF of the WHOLE buffer with no lower bound: a part that starts with CR (or LF) and has no later "
                          "line break is kept in memory entirely and re-scanned on every chunk (bytes held are not bounded by chunk + delimiter length + constant)", path_facts=pa.fact_text()[:6])
    if n_hold == 0:
        rep.undecide("R15.4", "no hold-back emission path found in the DATA branch")
    from .c01 import last_newline_shape
    last_newline_shape(p, rep, "R15.4")
    rep.require_instances("R15.4", 3)


def _block_of(fn: FuncInfo, e: Effect) -> List[ast.stmt]:
    par = e.node._parent  # type: ignore[attr-defined]
    for fld in ("body", "orelse", "finalbody"):
        b = getattr(par, fld, None)
        if isinstance(b, list) and e.node in b:
            return b
    return []
