"""Small helpers shared by the property checks."""
from __future__ import annotations

import ast
from typing import Any, Callable, Dict, Iterable, Iterator, List, Optional, Sequence, Set, Tuple

from .loader import AnalysisError, ClassInfo, FuncInfo, Module, Program, walk_shallow


PROGRAM: Optional[Program] = None  # registered by check.py; lets construct() name a private helper after its sole caller
_CALLERS: Dict[int, Dict[str, Set[str]]] = {}


def owner_of(p: Program, fn: FuncInfo) -> FuncInfo:
    """A private helper (function or method `_name`, or a method of a private class) with exactly one calling function is
    part of that caller: constructs inside it are named after the caller, so that extracting statements into a helper -
    or inlining one back - does not turn a known construct into a new one."""
    from .collect import default_inline
    cal = _CALLERS.get(id(p))
    if cal is None:
        cal = {}
        for f in p.all_functions():
            for n in ast.walk(f.node):
                r = None
                if isinstance(n, ast.Call):
                    try:
                        r = p.resolve_call(f, n)
                    except Exception:
                        r = None
                    if isinstance(r, ClassInfo):
                        # creating a private holder object: its methods are used by the creator
                        if r.name.startswith("_") and not r.name.startswith("__"):
                            for m in r.methods.values():
                                cal.setdefault(m.fq, set()).add(f.fq)
                        r = None
                if isinstance(r, FuncInfo) and r is not f:
                    cal.setdefault(r.fq, set()).add(f.fq)
        for h_, into_ in getattr(p, "inlined_into", {}).items():
            cal.setdefault(h_, set()).update(into_)  # a helper inlined at AST level (N8/N9) is still its caller's
        _CALLERS.clear()
        _CALLERS[id(p)] = cal
    cur = fn
    for _ in range(4):
        top = cur
        while top.parent is not None:
            top = top.parent
        if top is not cur:
            cur = top
            continue
        if not default_inline(cur):
            break
        cs = {c for c in cal.get(cur.fq, set()) if c != cur.fq}
        if len(cs) != 1:
            break
        try:
            cur = p.func(next(iter(cs)))
        except Exception:
            break
    return cur


def construct(fn_or_cls, node: Optional[ast.AST] = None, text: Optional[str] = None) -> str:
    """Position-independent key of a construct: module:qualname :: normalised text."""
    if isinstance(fn_or_cls, FuncInfo):
        head = fn_or_cls.fq
        if PROGRAM is not None and fn_or_cls.parent is None:
            try:
                head = owner_of(PROGRAM, fn_or_cls).fq
            except Exception:
                head = fn_or_cls.fq
    elif isinstance(fn_or_cls, ClassInfo):
        head = fn_or_cls.fq
    else:
        head = str(fn_or_cls)
    if text is None and node is not None:
        text = ast.unparse(node)
    if text is None:
        return head
    text = " ".join(text.split())
    if isinstance(fn_or_cls, FuncInfo):
        text = alpha_locals(fn_or_cls, text)
    if len(text) > 200:
        text = text[:200] + "..."
    return f"{head} :: {text}"


def where(fn: FuncInfo, node: Optional[ast.AST] = None) -> str:
    ln = getattr(node, "lineno", None) if node is not None else None
    return f"{fn.module.relpath}:{ln if ln is not None else fn.node.lineno}"


def calls_in(fn: FuncInfo, deep: bool = False) -> List[ast.Call]:
    it = ast.walk(fn.node) if deep else walk_shallow(fn.node)
    out = [n for n in it if isinstance(n, ast.Call)]
    out.sort(key=lambda n: (n.lineno, n.col_offset))
    return out


def nodes_in(fn: FuncInfo, kind, deep: bool = False) -> List[ast.AST]:
    it = ast.walk(fn.node) if deep else walk_shallow(fn.node)
    out = [n for n in it if isinstance(n, kind)]
    out.sort(key=lambda n: (getattr(n, "lineno", 0), getattr(n, "col_offset", 0)))
    return out


def call_name(call: ast.Call) -> str:
    f = call.func
    if isinstance(f, ast.Name):
        return f.id
    if isinstance(f, ast.Attribute):
        return f.attr
    return ""


def dotted(e: ast.AST) -> str:
    try:
        return ast.unparse(e)
    except Exception:
        return ""


def is_const(e: ast.AST, value: Any = ...) -> bool:
    return isinstance(e, ast.Constant) and (value is ... or e.value == value)


def parents(node: ast.AST) -> Iterator[ast.AST]:
    n = getattr(node, "_parent", None)
    while n is not None:
        yield n
        n = getattr(n, "_parent", None)


def enclosing_stmt(node: ast.AST) -> ast.stmt:
    n = node
    while not isinstance(n, ast.stmt):
        n = n._parent  # type: ignore[attr-defined]
    return n


def guards_of(node: ast.AST, stop: ast.AST) -> List[Tuple[ast.expr, bool]]:
    """The chain of if-tests (with polarity) enclosing `node` inside `stop` (a function node)."""
    out: List[Tuple[ast.expr, bool]] = []
    child = node
    for p in parents(node):
        if p is stop:
            break
        if isinstance(p, ast.If):
            if any(child is b or _contains(b, child) for b in p.body):
                out.append((p.test, True))
            elif any(child is b or _contains(b, child) for b in p.orelse):
                out.append((p.test, False))
        elif isinstance(p, ast.IfExp):
            if child is p.body or _contains(p.body, child):
                out.append((p.test, True))
            elif child is p.orelse or _contains(p.orelse, child):
                out.append((p.test, False))
        child = p
    return out[::-1]


_NEG_OPS = {ast.IsNot: ast.Is, ast.NotEq: ast.Eq, ast.NotIn: ast.In}


def norm_guard(test: ast.expr, pol: bool) -> Tuple[ast.expr, bool]:
    """Canonical (test, polarity): `not X` -> (X, flipped); `a is not b` / `a != b` / `a not in b` -> the positive
    comparison with the polarity flipped.  `if not (x is None): A else: B` and `if x is None: B else: A` give equal guards."""
    while True:
        if isinstance(test, ast.UnaryOp) and isinstance(test.op, ast.Not):
            test, pol = test.operand, not pol
            continue
        if isinstance(test, ast.Compare) and len(test.ops) == 1 and type(test.ops[0]) in _NEG_OPS:
            test = ast.Compare(left=test.left, ops=[_NEG_OPS[type(test.ops[0])]()], comparators=test.comparators)
            pol = not pol
            continue
        return test, pol


def norm_guards(node: ast.AST, stop: ast.AST) -> List[Tuple[ast.expr, bool]]:
    return [norm_guard(g, pol) for g, pol in guards_of(node, stop)]


def _contains(root: ast.AST, node: ast.AST) -> bool:
    for n in ast.walk(root):
        if n is node:
            return True
    return False


def get_kw(call: ast.Call, name: str) -> Optional[ast.expr]:
    for k in call.keywords:
        if k.arg == name:
            return k.value
    return None


def method_on(program: Program, cls_fq: str, name: str) -> FuncInfo:
    ci = program.cls(cls_fq)
    m = program.find_method(ci, name)
    if m is None:
        raise AnalysisError(f"method {cls_fq}.{name} vanished")
    return m


def str_consts(node: ast.AST) -> List[str]:
    return [n.value for n in ast.walk(node) if isinstance(n, ast.Constant) and isinstance(n.value, str)]


_LOCALS_CACHE = {}


def local_names(fn: FuncInfo) -> List[str]:
    """Locals of fn (assigned names that are not parameters), in order of first appearance, including those of
    enclosing functions (a nested closure's free variables are locals of its parents)."""
    if fn.fq in _LOCALS_CACHE:
        return _LOCALS_CACHE[fn.fq]
    import builtins as _b

    chain = []
    f = fn
    while f is not None:
        chain.append(f)
        f = f.parent
    names: List[Tuple[int, int, str]] = []
    params = set()
    for f in chain:
        a = f.node.args
        for x in a.posonlyargs + a.args + a.kwonlyargs:
            params.add(x.arg)
        if a.vararg:
            params.add(a.vararg.arg)
        if a.kwarg:
            params.add(a.kwarg.arg)
    root = chain[-1].node
    for n in ast.walk(root):
        if isinstance(n, ast.Name) and isinstance(n.ctx, (ast.Store, ast.Del)):
            names.append((n.lineno, n.col_offset, n.id))
        elif isinstance(n, ast.ExceptHandler) and n.name:
            names.append((n.lineno, n.col_offset, n.name))
        elif isinstance(n, (ast.FunctionDef, ast.AsyncFunctionDef, ast.Lambda)) and n is not root:
            a = n.args
            for x in a.posonlyargs + a.args + a.kwonlyargs:
                if n is not fn.node:
                    pass
    out: List[str] = []
    for _, _, nm in sorted(names):
        if nm not in params and nm not in out and not hasattr(_b, nm) and nm != "_":
            out.append(nm)
    _LOCALS_CACHE[fn.fq] = out
    return out


def alpha_locals(fn: FuncInfo, text: str) -> str:
    """Replace the function's local variable names in `text` by positional placeholders (L0, L1, ...), so that
    construct keys and reports do not depend on how locals are called."""
    import re as _re

    loc = local_names(fn)
    if not loc:
        return text
    idx = {nm: i for i, nm in enumerate(loc)}
    pat = _re.compile(r"(?<![\w.])(" + "|".join(_re.escape(n) for n in sorted(loc, key=len, reverse=True)) + r")(?![\w])")
    # never touch the inside of string literals
    parts = _re.split(r"""('[^'\\]*(?:\\.[^'\\]*)*'|"[^"\\]*(?:\\.[^"\\]*)*")""", text)
    for i in range(0, len(parts), 2):
        parts[i] = pat.sub(lambda m: f"L{idx[m.group(1)]}", parts[i])
    return "".join(parts)


# ----------------------------------------------------------------------------- method rebinding / memoisation
CACHE_WRAPPERS = ("functools.lru_cache", "functools.cache", "functools.cached_property")


def _is_cache_expr(p: Program, mod: Module, e: ast.AST) -> bool:
    for n in ast.walk(e):
        if isinstance(n, (ast.Name, ast.Attribute)):
            r = p.resolve_dotted(mod, n)
            if isinstance(r, tuple) and r[0] == "ext" and r[1] in CACHE_WRAPPERS:
                return True
    return False


def method_rebinds(p: Program) -> List[Tuple[FuncInfo, ast.AST, ClassInfo, str, FuncInfo, bool]]:
    """Every store `self.X = ...` / `cls.X = ...` / `setattr(self, 'X', ...)` where X names a METHOD of the class, of a base
    or of a subclass: (function containing the store, node, class, X, the shadowed method, value is a functools cache).
    Such a store makes the statically resolved callee of `self.X(...)` wrong, so every check must know about it."""
    if hasattr(p, "_rebinds"):
        return p._rebinds  # type: ignore[attr-defined]
    out = []
    for fn in p.all_functions():
        ci = fn.cls
        f = fn
        while ci is None and f.parent is not None:
            f = f.parent
            ci = f.cls
        if ci is None:
            continue
        related = [ci] + [c for c in p.mro(ci) if isinstance(c, ClassInfo)] + list(p.subclasses(ci))
        for n in ast.walk(fn.node):
            tg: List[Tuple[str, ast.AST]] = []
            if isinstance(n, (ast.Assign, ast.AnnAssign, ast.AugAssign)):
                val = n.value
                for t in (n.targets if isinstance(n, ast.Assign) else [n.target]):
                    if isinstance(t, ast.Attribute) and isinstance(t.value, ast.Name) and t.value.id in ("self", "cls"):
                        tg.append((t.attr, val))
            elif isinstance(n, ast.Call) and isinstance(n.func, ast.Name) and n.func.id == "setattr" and len(n.args) == 3 \
                    and isinstance(n.args[0], ast.Name) and n.args[0].id in ("self", "cls") and isinstance(n.args[1], ast.Constant):
                tg.append((str(n.args[1].value), n.args[2]))
            for attr, val in tg:
                seen = set()
                for c in related:
                    m = p.find_method(c, attr)
                    if m is not None and m.fq not in seen and "property" not in " ".join(m.decorators):
                        seen.add(m.fq)
                        out.append((fn, n, c, attr, m, val is not None and _is_cache_expr(p, fn.module, val)))
    p._rebinds = out  # type: ignore[attr-defined]
    return out


def memoised(p: Program, fn: FuncInfo) -> List[Tuple[str, str]]:
    """(location, how) for every functools cache wrapped around `fn`: as a decorator or by rebinding the method."""
    out = []
    for d in getattr(fn.node, "decorator_list", []):
        if _is_cache_expr(p, fn.module, d):
            out.append((f"{fn.module.relpath}:{d.lineno}", f"@{ast.unparse(d)}"))
    for site_fn, node, c, attr, m, is_cache in method_rebinds(p):
        if m.fq == fn.fq and is_cache:
            out.append((where(site_fn, node), " ".join(ast.unparse(node).split())[:100]))
    return out


# ----------------------------------------------------------------------------- stale-index deletes
def _assigned_values(fn: FuncInfo, name: str) -> List[ast.expr]:
    """right-hand sides that (part of) `name` is bound from inside fn (plain, annotated and unpacking assignments)"""
    out = []
    for n in ast.walk(fn.node):
        if isinstance(n, ast.Assign):
            for t in n.targets:
                if isinstance(t, ast.Name) and t.id == name:
                    out.append(n.value)
                elif isinstance(t, (ast.Tuple, ast.List)):
                    for el in t.elts:
                        x = el.value if isinstance(el, ast.Starred) else el
                        if isinstance(x, ast.Name) and x.id == name:
                            out.append(n.value)
        elif isinstance(n, ast.AnnAssign) and isinstance(n.target, ast.Name) and n.target.id == name and n.value is not None:
            out.append(n.value)
    return out


def _positions_of(fn: FuncInfo, e: ast.expr, depth: int = 0, p: Optional[Program] = None) -> Optional[Tuple[str, bool]]:
    """If `e` evaluates to positions (indexes) of a sequence: (text of that sequence, descending?). With a Program the
    positions are followed through private helpers: a helper's parameter is what its callers pass, a helper call is what
    its single return statement returns; a sub-sequence taken by unpacking (`first, *rest = positions`) keeps the order."""
    if depth > 8:
        return None
    if isinstance(e, ast.Name):
        for v in _assigned_values(fn, e.id):
            r = _positions_of(fn, v, depth + 1, p)
            if r is not None:
                return r
        if p is not None and e.id in fn.params:
            from .collect import default_inline
            if default_inline(fn):
                idx = fn.params.index(e.id)
                found = []
                scope = list(fn.cls.methods.values()) if fn.cls is not None else list(fn.module.functions.values())
                for caller in scope:
                    if caller is fn:
                        continue
                    for c in calls_in(caller, deep=True):
                        try:
                            r_ = p.resolve_call(caller, c)
                        except Exception:
                            r_ = None
                        if r_ is fn:
                            off = 1 if (fn.cls is not None and isinstance(c.func, ast.Attribute) and "staticmethod" not in fn.decorators) else 0
                            ai = idx - off
                            arg = c.args[ai] if 0 <= ai < len(c.args) else next((k.value for k in c.keywords if k.arg == e.id), None)
                            found.append(None if arg is None else _positions_of(caller, arg, depth + 1, p))
                if found and all(f is not None for f in found) and len({f[1] for f in found}) == 1:
                    return found[0]
        return None
    if isinstance(e, ast.Call):
        fname = e.func.id if isinstance(e.func, ast.Name) else (e.func.attr if isinstance(e.func, ast.Attribute) else "")
        if p is not None:
            try:
                callee = p.resolve_call(fn, e)
            except Exception:
                callee = None
            if isinstance(callee, FuncInfo) and not callee.decorators:
                rets = [n for n in walk_shallow(callee.node) if isinstance(n, ast.Return) and n.value is not None]
                if len(rets) == 1:
                    return _positions_of(callee, rets[0].value, depth + 1, p)
                return None
        if fname == "reversed" and e.args:
            r = _positions_of(fn, e.args[0], depth + 1, p)
            return None if r is None else (r[0], not r[1])
        if fname == "sorted" and e.args:
            r = _positions_of(fn, e.args[0], depth + 1, p)
            rev = next((k.value for k in e.keywords if k.arg == "reverse"), None)
            return None if r is None else (r[0], isinstance(rev, ast.Constant) and bool(rev.value))
        if fname in ("tuple", "list", "iter") and e.args:
            return _positions_of(fn, e.args[0], depth + 1, p)
        if fname == "range" and e.args:
            step = e.args[2] if len(e.args) > 2 else None
            lens = [a for a in e.args if isinstance(a, ast.Call) and isinstance(a.func, ast.Name) and a.func.id == "len" and a.args] + \
                   [x for a in e.args for x in ast.walk(a) if isinstance(x, ast.Call) and isinstance(x.func, ast.Name) and x.func.id == "len" and x.args]
            if lens:
                desc = isinstance(step, ast.UnaryOp) and isinstance(step.op, ast.USub)
                return ast.unparse(lens[0].args[0]), desc
        return None
    if isinstance(e, (ast.GeneratorExp, ast.ListComp, ast.SetComp)) and len(e.generators) == 1:
        g = e.generators[0]
        if isinstance(g.iter, ast.Call) and isinstance(g.iter.func, ast.Name) and g.iter.func.id == "enumerate" and g.iter.args \
                and isinstance(g.target, ast.Tuple) and g.target.elts and isinstance(g.target.elts[0], ast.Name) and isinstance(e.elt, ast.Name) and e.elt.id == g.target.elts[0].id:
            return ast.unparse(g.iter.args[0]), False
        return None
    if isinstance(e, ast.Subscript) and isinstance(e.slice, ast.Slice):
        r = _positions_of(fn, e.value, depth + 1, p)
        if r is None:
            return None
        st = e.slice.step
        neg = isinstance(st, ast.UnaryOp) and isinstance(st.op, ast.USub)
        return (r[0], (not r[1]) if neg else r[1])
    return None


def stale_index_deletes(fn: FuncInfo, p: Optional[Program] = None) -> List[Tuple[ast.AST, str, bool]]:
    """Loops that delete list elements by position while walking the positions in ASCENDING order: after the first
    deletion every later position is off by one (a wrong element is removed, or IndexError).
    Returns (node, description, ok) for every recognised delete-by-position loop; ok=False is the defect."""
    out = []
    for loop in ast.walk(fn.node):
        if not isinstance(loop, ast.For) or not isinstance(loop.target, ast.Name):
            continue
        pos = _positions_of(fn, loop.iter, 0, p)
        if pos is None:
            continue
        seq, desc = pos
        for n in ast.walk(ast.Module(body=loop.body, type_ignores=[])):
            hit = None
            if isinstance(n, ast.Delete):
                for t in n.targets:
                    if isinstance(t, ast.Subscript) and isinstance(t.slice, ast.Name) and t.slice.id == loop.target.id and ast.unparse(t.value) == seq:
                        hit = n
            elif isinstance(n, ast.Call) and isinstance(n.func, ast.Attribute) and n.func.attr == "pop" and n.args and isinstance(n.args[0], ast.Name) \
                    and n.args[0].id == loop.target.id and ast.unparse(n.func.value) == seq:
                hit = n
            if hit is None:
                continue
            if desc:
                out.append((hit, f"positions of {seq} are walked in descending order while elements are deleted by position", True))
                continue
            # a single deletion followed by leaving the loop is fine
            stmt = enclosing_stmt(hit)
            par = getattr(stmt, "_parent", None)
            blk = None
            for fld in ("body", "orelse"):
                b = getattr(par, fld, None)
                if isinstance(b, list) and stmt in b:
                    blk = b
            if blk is not None and blk.index(stmt) + 1 < len(blk) and isinstance(blk[blk.index(stmt) + 1], (ast.Break, ast.Return)):
                out.append((hit, f"one element of {seq} is deleted by position and the loop is left", True))
                continue
            out.append((hit, f"positions of {seq} are walked in ascending order ({' '.join(ast.unparse(loop.iter).split())[:60]}) while elements are deleted by position", False))
    # the work-list form: `while <positions>: del seq[positions.pop(0)]` / `seq.pop(positions.pop())` - the order in which the
    # positions are consumed is the order of the list (flipped by in-place `.reverse()` calls before the loop) read from the front
    # (pop(0)) or from the back (pop())
    for loop in ast.walk(fn.node):
        if not isinstance(loop, ast.While):
            continue
        for n in ast.walk(ast.Module(body=loop.body, type_ignores=[])):
            idx_e = tgt_seq = None
            if isinstance(n, ast.Delete):
                for t in n.targets:
                    if isinstance(t, ast.Subscript):
                        idx_e, tgt_seq = t.slice, ast.unparse(t.value)
            elif isinstance(n, ast.Call) and isinstance(n.func, ast.Attribute) and n.func.attr == "pop" and len(n.args) == 1 and isinstance(n.args[0], ast.Call):
                idx_e, tgt_seq = n.args[0], ast.unparse(n.func.value)
            if not (isinstance(idx_e, ast.Call) and isinstance(idx_e.func, ast.Attribute) and idx_e.func.attr == "pop" and isinstance(idx_e.func.value, ast.Name)):
                continue
            work = idx_e.func.value
            pos = _positions_of(fn, work, 0, p)
            if pos is None:
                continue
            seq, desc = pos
            aliases = {seq}
            for nm in [x for x in ast.walk(fn.node) if isinstance(x, ast.Assign) and len(x.targets) == 1 and isinstance(x.targets[0], ast.Name) and ast.unparse(x.value) == seq]:
                aliases.add(nm.targets[0].id)
            if tgt_seq not in aliases:
                # (positions of `self._list` used on its alias `pairs = self._list`)
                defs = [ast.unparse(x.value) for x in ast.walk(fn.node) if isinstance(x, ast.Assign) and len(x.targets) == 1 and ast.unparse(x.targets[0]) == tgt_seq]
                if not (defs and all(d in aliases or d == seq for d in defs)) and not any(ast.unparse(x.value) == tgt_seq and isinstance(x.targets[0], ast.Name) and x.targets[0].id == seq for x in ast.walk(fn.node) if isinstance(x, ast.Assign) and len(x.targets) == 1):
                    continue
            flips = 0
            unknown = False
            for x in ast.walk(fn.node):
                if isinstance(x, ast.Call) and isinstance(x.func, ast.Attribute) and isinstance(x.func.value, ast.Name) and x.func.value.id == work.id and x is not idx_e:
                    if x.func.attr == "reverse" and getattr(x, "lineno", 0) < loop.lineno:
                        flips += 1
                    elif x.func.attr == "sort":
                        rev = next((k.value for k in x.keywords if k.arg == "reverse"), None)
                        desc, flips = (isinstance(rev, ast.Constant) and bool(rev.value)), 0
                    elif x.func.attr in ("append", "insert", "extend", "remove", "reverse"):
                        unknown = True
            if unknown:
                continue
            order_desc = desc ^ (flips % 2 == 1)
            from_front = bool(idx_e.args) and isinstance(idx_e.args[0], ast.Constant) and idx_e.args[0].value == 0
            from_back = not idx_e.args or (isinstance(idx_e.args[0], ast.Constant) and idx_e.args[0].value == -1)
            if not (from_front or from_back):
                continue
            consumed_desc = order_desc if from_front else not order_desc
            if consumed_desc:
                out.append((n, f"positions of {seq} are consumed from a work list in descending order while elements are deleted by position", True))
            else:
                out.append((n, f"positions of {seq} are consumed from a work list in ascending order (`{' '.join(ast.unparse(n).split())[:50]}`) while elements are deleted by position", False))
    return out


# ----------------------------------------------------------------------------- process-wide mutable state
_MUT_CTORS = ("dict", "list", "set", "defaultdict", "OrderedDict", "deque", "Counter", "WeakValueDictionary", "WeakKeyDictionary")
_MUT_METHODS = ("setdefault", "update", "append", "add", "pop", "clear", "extend", "insert", "popitem", "remove", "discard", "appendleft", "__setitem__", "__delitem__", "move_to_end")


def _is_mutable_ctor(v: Optional[ast.AST]) -> bool:
    if isinstance(v, (ast.Dict, ast.List, ast.Set, ast.DictComp, ast.ListComp, ast.SetComp)):
        return True
    if isinstance(v, ast.Call):
        f = v.func
        nm = f.id if isinstance(f, ast.Name) else (f.attr if isinstance(f, ast.Attribute) else "")
        return nm in _MUT_CTORS
    return False


def process_wide_mutations(p: Program, fns: Iterable[FuncInfo]) -> List[Tuple[FuncInfo, ast.AST, str]]:
    """Mutations (item store/delete, mutating method call) of containers that outlive a request: module-level mutable
    constants and class-level mutable attributes (reached through self./cls./ClassName.).  Returns (fn, node, what)."""
    out = []
    for fn in fns:
        mod = fn.module
        mod_mut = {n for n, v in mod.constants.items() if _is_mutable_ctor(v)}
        cls = fn.cls
        f = fn
        while cls is None and f.parent is not None:
            f = f.parent
            cls = f.cls
        cls_mut: Dict[str, str] = {}
        if cls is not None:
            for c in [cls] + [b for b in p.mro(cls) if isinstance(b, ClassInfo)]:
                for an, av in c.attrs.items():
                    if _is_mutable_ctor(av) and an not in cls_mut and an != "__slots__":
                        cls_mut[an] = c.fq
        instance_rebound = set()
        if cls is not None:
            for c in [cls] + [b for b in p.mro(cls) if isinstance(b, ClassInfo)]:
                for m in c.methods.values():
                    for n in ast.walk(m.node):
                        if isinstance(n, (ast.Assign, ast.AnnAssign)):
                            for t in (n.targets if isinstance(n, ast.Assign) else [n.target]):
                                if isinstance(t, ast.Attribute) and isinstance(t.value, ast.Name) and t.value.id == "self":
                                    instance_rebound.add(t.attr)

        def shared(e: ast.AST) -> Optional[str]:
            if isinstance(e, ast.Name) and e.id in mod_mut and e.id not in fn.params:
                return f"module-level {e.id}"
            if isinstance(e, ast.Attribute) and e.attr in cls_mut and isinstance(e.value, ast.Name):
                if e.value.id in ("cls",) or e.value.id == (cls.name if cls else None) or (e.value.id == "self" and e.attr not in instance_rebound):
                    return f"class-level {cls_mut[e.attr].split(':')[-1]}.{e.attr}"
            return None

        for n in ast.walk(fn.node):
            if isinstance(n, (ast.Assign, ast.AugAssign, ast.AnnAssign)):
                for t in (n.targets if isinstance(n, ast.Assign) else [n.target]):
                    if isinstance(t, ast.Subscript) and shared(t.value):
                        out.append((fn, n, f"{shared(t.value)}[...] is assigned"))
            elif isinstance(n, ast.Delete):
                for t in n.targets:
                    if isinstance(t, ast.Subscript) and shared(t.value):
                        out.append((fn, n, f"an item of {shared(t.value)} is deleted"))
            elif isinstance(n, ast.Call) and isinstance(n.func, ast.Attribute) and n.func.attr in _MUT_METHODS and shared(n.func.value):
                out.append((fn, n, f"{shared(n.func.value)}.{n.func.attr}(...)"))
    return out


# ----------------------------------------------------------------------------- positive controls
def stored_callback_calls(p: Program, inits: Sequence[FuncInfo], param: str, fns: Iterable[FuncInfo]) -> List[Tuple[FuncInfo, ast.Call, str]]:
    """Calls, anywhere in `fns`, of the attribute in which one of the constructors `inits` stores its parameter `param`
    (`self._start_response = start_response` ... `request._start_response(...)`): (function, call, attribute)."""
    attrs = set()
    for init in inits:
        for n in ast.walk(init.node):
            if isinstance(n, ast.Assign) and isinstance(n.value, ast.Name) and n.value.id == param:
                for t in n.targets:
                    if isinstance(t, ast.Attribute) and isinstance(t.value, ast.Name) and t.value.id == init.params[0]:
                        attrs.add(t.attr)
    out = []
    for f_ in fns:
        for c in ast.walk(f_.node):
            if isinstance(c, ast.Call) and isinstance(c.func, ast.Attribute) and c.func.attr in attrs:
                out.append((f_, c, c.func.attr))
    return out


def controls_fire() -> List[str]:
    """Run the zero-expected detectors on the committed fixture (sa/fixtures/controls): returns the list of detectors that
    did NOT fire (empty = all alive)."""
    import os

    from .loader import Program as _P

    root = os.path.join(os.path.dirname(os.path.abspath(__file__)), "fixtures", "controls")
    cp = _P(root)
    dead = []
    muts = process_wide_mutations(cp, cp.all_functions())
    kinds = " | ".join(w for _, _, w in muts)
    if not ("class-level Memo.memo" in kinds and "Memo.order" in kinds and "module-level CACHE" in kinds):
        dead.append("process_wide_mutations")
    rb = method_rebinds(cp)
    if not any(attr == "lookup" and is_cache for _, _, _, attr, _, is_cache in rb):
        dead.append("method_rebinds")
    if not stored_callback_calls(cp, [cp.module("baize").classes["Conn"].methods["__init__"]], "start_response", cp.all_functions()):
        dead.append("stored_callback_calls")
    sh = cp.module("baize").functions.get("shrink")
    if sh is None or not any(not ok for _, _, ok in stale_index_deletes(sh)):
        dead.append("stale_index_deletes")
    return dead


# ----------------------------------------------------------------------------- constructor hygiene
_ABSTRACT_MAPPING = ("typing.Mapping", "typing.MutableMapping", "collections.abc.Mapping", "collections.abc.MutableMapping", "Mapping", "MutableMapping", "abc.Mapping")


def narrow_mapping_tests(p: Program, fn: FuncInfo) -> List[Tuple[ast.AST, str]]:
    """isinstance(<param>, dict|OrderedDict|...) on a parameter whose annotation admits any Mapping: a Mapping that is not
    a dict (MappingProxyType, ChainMap, the package's own Headers / MultiMapping) takes the wrong branch.
    Returns (node, description)."""
    out = []
    ann = {}
    a = fn.node.args
    for x in a.posonlyargs + a.args + a.kwonlyargs:
        if x.annotation is not None:
            ann[x.arg] = ast.unparse(x.annotation)
    for n in ast.walk(fn.node):
        if isinstance(n, ast.Call) and isinstance(n.func, ast.Name) and n.func.id == "isinstance" and len(n.args) == 2 and isinstance(n.args[0], ast.Name) and n.args[0].id in ann:
            if "Mapping" not in ann[n.args[0].id]:
                continue
            types = n.args[1].elts if isinstance(n.args[1], ast.Tuple) else [n.args[1]]
            names = [ast.unparse(t) for t in types]
            concrete = [t for t in names if t.split(".")[-1] in ("dict", "OrderedDict", "defaultdict", "UserDict")]
            if concrete and not any(t in _ABSTRACT_MAPPING or t.endswith(".Mapping") for t in names):
                out.append((n, f"isinstance({n.args[0].id}, {', '.join(names)}) although `{n.args[0].id}` is annotated as any Mapping"))
    return out


def ctor_aliases(fn: FuncInfo) -> List[Tuple[ast.AST, str]]:
    """Stores `self.X = <param>.Y` (or a bare container parameter attribute chain) in a constructor: the new object shares
    mutable state with its argument."""
    out = []
    params = set(fn.params[1:])
    for n in ast.walk(fn.node):
        if isinstance(n, (ast.Assign, ast.AnnAssign)):
            val = n.value
            tg = n.targets if isinstance(n, ast.Assign) else [n.target]
            if val is None:
                continue
            for t in tg:
                if isinstance(t, ast.Attribute) and isinstance(t.value, ast.Name) and t.value.id == "self":
                    if isinstance(val, ast.Attribute) and isinstance(val.value, ast.Name) and val.value.id in params and val.attr.startswith("_"):
                        out.append((n, f"self.{t.attr} = {ast.unparse(val)}"))
    return out


# ----------------------------------------------------------------------------- canonical guards
# A guard is a boolean formula over atoms. Canonical form: negation normal form (negations pushed to the atoms with De Morgan,
# `not X`, `is not`, `!=`, `not in` folded into the atom's polarity, isinstance(x, (A, B)) split into a disjunction), a
# conjunction split into its conjuncts, disjuncts sorted. `if a: return` followed by code guards that code with `not a`
# (early-exit complement); a local assigned exactly once from a boolean expression is replaced by that expression.
def _nnf(e: ast.expr, pol: bool, txt) -> Tuple:
    e, pol = norm_guard(e, pol)
    if isinstance(e, ast.BoolOp):
        kind = "and" if isinstance(e.op, ast.And) else "or"
        if not pol:
            kind = "or" if kind == "and" else "and"
        parts = [_nnf(v, pol, txt) for v in e.values]
        flat = []
        for p in parts:
            if p[0] == kind:
                flat.extend(p[1])
            else:
                flat.append(p)
        return (kind, flat)
    if isinstance(e, ast.Call) and isinstance(e.func, ast.Name) and e.func.id == "isinstance" and len(e.args) == 2 and isinstance(e.args[1], ast.Tuple) and e.args[1].elts:
        alts = [ast.Call(func=e.func, args=[e.args[0], t], keywords=[]) for t in e.args[1].elts]
        return _nnf(ast.BoolOp(op=ast.Or(), values=alts), pol, txt) if len(alts) > 1 else _nnf(alts[0], pol, txt)
    if isinstance(e, ast.Compare) and len(e.ops) > 1:
        # a < b < c  ==  a < b and b < c
        parts = []
        left = e.left
        for op, right in zip(e.ops, e.comparators):
            parts.append(ast.Compare(left=left, ops=[op], comparators=[right]))
            left = right
        return _nnf(ast.BoolOp(op=ast.And(), values=parts), pol, txt)
    if isinstance(e, ast.Constant) and isinstance(e.value, bool):
        return ("const", e.value == pol)
    return ("atom", txt(e), pol)


def _render(f: Tuple) -> str:
    if f[0] == "atom":
        return f[1] if f[2] else f"not ({f[1]})"
    if f[0] == "const":
        return "True" if f[1] else "False"
    parts = sorted(_render(x) if x[0] in ("atom", "const") else "(" + _render(x) + ")" for x in f[1])
    return (" and " if f[0] == "and" else " or ").join(parts)


def canonical_conjuncts(e: ast.expr, pol: bool, txt=None) -> List[str]:
    """The guard (e is pol) as a list of canonical conjunct strings."""
    txt = txt or (lambda n: " ".join(ast.unparse(n).split()))
    f = _nnf(e, pol, txt)
    if f[0] == "and":
        return sorted(set(_render(x) for x in f[1] if not (x[0] == "const" and x[1])))
    if f[0] == "const" and f[1]:
        return []
    return [_render(f)]


def _ends_in_exit(body: List[ast.stmt]) -> bool:
    return bool(body) and isinstance(body[-1], (ast.Return, ast.Raise, ast.Continue, ast.Break))


def _single_bool_defs(root: ast.AST) -> Dict[str, ast.expr]:
    """locals assigned exactly once in `root`, from a boolean-shaped expression"""
    seen: Dict[str, List[ast.expr]] = {}
    for n in ast.walk(root):
        tg = []
        if isinstance(n, ast.Assign):
            tg = [(t, n.value) for t in n.targets]
        elif isinstance(n, ast.AnnAssign) and n.value is not None:
            tg = [(n.target, n.value)]
        elif isinstance(n, (ast.AugAssign, ast.NamedExpr)):
            t = n.target
            if isinstance(t, ast.Name):
                seen.setdefault(t.id, []).extend([None, None])  # type: ignore[list-item]
        elif isinstance(n, (ast.For, ast.AsyncFor, ast.comprehension)):
            for x in ast.walk(n.target):
                if isinstance(x, ast.Name):
                    seen.setdefault(x.id, []).extend([None, None])  # type: ignore[list-item]
        for t, v in tg:
            for x in ast.walk(t):
                if isinstance(x, ast.Name):
                    seen.setdefault(x.id, []).append(v if isinstance(t, ast.Name) else None)  # type: ignore[arg-type]
    return {k: v[0] for k, v in seen.items() if len(v) == 1 and isinstance(v[0], (ast.BoolOp, ast.Compare)) or (len(v) == 1 and isinstance(v[0], ast.UnaryOp) and isinstance(v[0].op, ast.Not))}


def effective_guards(node: ast.AST, root: ast.AST, txt=None, parents_map: Optional[Dict[int, ast.AST]] = None, markers: bool = True) -> Tuple[str, ...]:
    """Canonical, order-free set of the conditions under which `node` (inside function `root`) runs: lexical if / conditional
    expression tests, complements of earlier guard clauses that leave the block, with single-assignment boolean locals
    replaced by their definition; plus context markers (`except X`, `finally`, `loop`) when `markers`."""
    txt = txt or (lambda n: " ".join(ast.unparse(n).split()))
    defs = _single_bool_defs(root)

    def subst(e: ast.expr) -> ast.expr:
        class S(ast.NodeTransformer):
            def visit_Name(self, n):
                if isinstance(n.ctx, ast.Load) and n.id in defs:
                    return defs[n.id]
                return n
        import copy as _copy
        e2 = _copy.deepcopy(e)
        for x in ast.walk(e2):
            if hasattr(x, "_parent"):
                try:
                    delattr(x, "_parent")
                except Exception:
                    pass
        return S().visit(e2) if any(isinstance(x, ast.Name) and x.id in defs for x in ast.walk(e)) else e

    def par(n):
        if parents_map is not None:
            return parents_map.get(id(n))
        return getattr(n, "_parent", None)

    out: List[str] = []
    child = node
    p_ = par(node)
    while p_ is not None:
        if isinstance(p_, ast.If):
            if any(child is b for b in p_.body):
                out += canonical_conjuncts(subst(p_.test), True, txt)
            elif any(child is b for b in p_.orelse):
                out += canonical_conjuncts(subst(p_.test), False, txt)
        elif isinstance(p_, ast.IfExp):
            if child is p_.body:
                out += canonical_conjuncts(subst(p_.test), True, txt)
            elif child is p_.orelse:
                out += canonical_conjuncts(subst(p_.test), False, txt)
        elif markers and isinstance(p_, ast.ExceptHandler):
            out.append("except " + (txt(p_.type) if p_.type else "*"))
        elif markers and isinstance(p_, ast.Try) and any(child is b for b in p_.finalbody):
            out.append("finally")
        elif markers and isinstance(p_, (ast.For, ast.While, ast.AsyncFor)) and any(child is b for b in p_.body):
            out.append("loop")
        # early-exit complements: earlier siblings of `child` in whichever block of p_ holds it
        for fld in ("body", "orelse", "finalbody"):
            blk = getattr(p_, fld, None)
            if isinstance(blk, list) and any(child is b for b in blk):
                for st in blk[: next(i for i, b in enumerate(blk) if b is child)]:
                    if isinstance(st, ast.If):
                        b_exit, e_exit = _ends_in_exit(st.body), _ends_in_exit(st.orelse)
                        if b_exit and not e_exit:
                            out += canonical_conjuncts(subst(st.test), False, txt)
                        elif e_exit and not b_exit and st.orelse:
                            out += canonical_conjuncts(subst(st.test), True, txt)
        if isinstance(p_, ast.ExceptHandler) and isinstance(par(p_), ast.Try):
            pass
        if p_ is root:
            break
        child = p_
        p_ = par(p_)
    return tuple(sorted(set(out)))


def with_helpers(p: Program, fn: FuncInfo, depth: int = 3, policy: Optional[Callable[[FuncInfo], bool]] = None) -> List[FuncInfo]:
    """`fn` followed by the private helpers it calls (transitively, to `depth`): the code a maintainer would consider one unit.
    A helper is what collect.default_inline inlines: a repository function `_name` without a behaviour-changing decorator."""
    from .collect import default_inline
    out: List[FuncInfo] = [fn]
    seen = {fn.fq}
    frontier = [fn]
    for _ in range(depth):
        nxt: List[FuncInfo] = []
        for f in frontier:
            for c in calls_in(f, deep=True):
                try:
                    r = p.resolve_call(f, c)
                except Exception:
                    r = None
                if isinstance(r, FuncInfo) and r.fq not in seen and (policy or default_inline)(r):
                    seen.add(r.fq)
                    out.append(r)
                    nxt.append(r)
                elif isinstance(r, ClassInfo) and r.name.startswith("_") and not r.name.startswith("__") and r.module is f.module:
                    # a private holder / iterator class of the same module that the unit instantiates: its methods are the unit's code
                    for m_ in dict.values(r.methods):
                        if m_.fq not in seen:
                            seen.add(m_.fq)
                            out.append(m_)
                            nxt.append(m_)
            # private functions the unit reaches as VALUES: named directly (map(_render, xs), partial(_h, ..)) or through a private
            # module-level table of functions (`_RENDERERS[bool(as_bytes)]`)
            names = {n.id for n in ast.walk(f.node) if isinstance(n, ast.Name) and isinstance(n.ctx, ast.Load)}
            for nm in sorted(names):
                cands = []
                tbl = f.module.constants.get(nm) if nm.startswith("_") else None
                if isinstance(tbl, (ast.Tuple, ast.List, ast.Dict, ast.Call)):
                    cands = [x.id for x in ast.walk(tbl) if isinstance(x, ast.Name)]
                elif nm.startswith("_") and not nm.startswith("__"):
                    cands = [nm]
                for c_ in cands:
                    try:
                        r = p.lookup_name(f.module, c_)
                    except Exception:
                        r = None
                    if isinstance(r, FuncInfo) and r.parent is None and r.cls is None and r.fq not in seen and (policy or default_inline)(r):
                        seen.add(r.fq)
                        out.append(r)
                        nxt.append(r)
        frontier = nxt
    return out


def sole_defs(fn: FuncInfo, name: str) -> Optional[List[ast.expr]]:
    """the right-hand sides of the plain `name = <expr>` assignments of a local, or None when the name is (also) bound in any
    other way (parameter, augmented assignment, unpacking, loop/with/except target, walrus, import, global/nonlocal, del):
    only then is `name` a mere alias of those expressions"""
    if name in fn.params:
        return None
    out: List[ast.expr] = []
    for n in ast.walk(fn.node):
        if isinstance(n, ast.Assign):
            for t in n.targets:
                if isinstance(t, ast.Name) and t.id == name:
                    out.append(n.value)
                elif any(isinstance(x, ast.Name) and x.id == name for x in ast.walk(t)) and not isinstance(t, (ast.Subscript, ast.Attribute)):
                    return None
        elif isinstance(n, ast.AnnAssign) and isinstance(n.target, ast.Name) and n.target.id == name:
            if n.value is not None:
                out.append(n.value)
        elif isinstance(n, ast.Name) and n.id == name and isinstance(n.ctx, (ast.Store, ast.Del)):
            par = next(iter(parents(n)), None)
            if not (isinstance(par, (ast.Assign, ast.AnnAssign)) and (n in getattr(par, "targets", []) or n is getattr(par, "target", None))):
                return None
        elif isinstance(n, (ast.Global, ast.Nonlocal)) and name in n.names:
            return None
        elif isinstance(n, ast.ExceptHandler) and n.name == name:
            return None
        elif isinstance(n, (ast.Import, ast.ImportFrom)) and any((a.asname or a.name.split(".")[0]) == name for a in n.names):
            return None
        elif isinstance(n, (ast.FunctionDef, ast.AsyncFunctionDef, ast.ClassDef)) and n is not fn.node and n.name == name:
            return None
    return out


def defs_of(fn: FuncInfo, e: ast.expr, depth: int = 3) -> List[ast.expr]:
    """the expressions a value can come from: `e` itself, or - when `e` is a local that is only ever bound by plain
    assignments - the right-hand sides of those (followed through further such locals). A rule that asks "is this argument
    X(...)" thereby reads `tmp = X(...); f(tmp)` and `f(X(...))` alike."""
    if isinstance(e, ast.Await):
        inner = defs_of(fn, e.value, depth)
        return [ast.copy_location(ast.Await(value=x), e) if not isinstance(x, ast.Await) else x for x in inner] if inner != [e.value] else [e]
    if depth > 0 and isinstance(e, ast.Name) and isinstance(e.ctx, ast.Load):
        ds = sole_defs(fn, e.id)
        if ds:
            out: List[ast.expr] = []
            for d in ds:
                out += defs_of(fn, d, depth - 1)
            return out
    return [e]


def ast_text_parts(p: Program, mod: Module, e: ast.expr):
    """The pieces of a text-building expression (f-string, `+`, `%`, `.format` around constant text; module-level literal
    constants folded in) as flow terms: ('const', text) | ('param', name) | ('attr', term, name) | ('expr', source).
    None when `e` is not such a text. For expressions that are not inside an analysed function (a lambda handed to a
    module-level table, a class attribute)."""
    from .flow import strparts
    from .fold import Folder, NotConst

    F = Folder(p)

    def term(x: ast.expr):
        if isinstance(x, ast.Constant):
            return ("const", x.value)
        if isinstance(x, ast.Name):
            try:
                v = F.fold(mod, x)
                if isinstance(v, (str, bytes, int)):
                    return ("const", v)
            except NotConst:
                pass
            return ("param", x.id)
        if isinstance(x, ast.Attribute):
            return ("attr", term(x.value), x.attr)
        if isinstance(x, ast.JoinedStr):
            parts = []
            for v in x.values:
                if isinstance(v, ast.FormattedValue):
                    t = term(v.value)
                    if v.conversion != -1 or v.format_spec is not None:
                        t = ("fmt", t, {114: "r", 115: "s", 97: "a"}.get(v.conversion, ""), ast.unparse(v.format_spec) if v.format_spec else "")
                    parts.append(t)
                else:
                    parts.append(term(v))
            return ("fstr", tuple(parts))
        if isinstance(x, ast.BinOp) and isinstance(x.op, (ast.Add, ast.Mod)):
            return ("binop", type(x.op).__name__, term(x.left), term(x.right))
        if isinstance(x, ast.Tuple):
            return ("tuple", tuple(term(y) for y in x.elts))
        if isinstance(x, ast.Call) and isinstance(x.func, ast.Attribute) and x.func.attr == "format":
            return ("call", ("attr", term(x.func.value), "format"), tuple(term(a) for a in x.args), tuple((k.arg or "**", term(k.value)) for k in x.keywords), 0)
        return ("expr", " ".join(ast.unparse(x).split()))

    return strparts(term(e))


def nested_fn(fn: Optional[FuncInfo], name: str, role: Optional[Callable[[FuncInfo], bool]] = None) -> Optional[FuncInfo]:
    """The nested function of `fn` that plays a role: the one called `name` on the pinned tree; after a rename, the only
    nested function there is, or the only one for which `role` holds. None when that is not unique."""
    if fn is None:
        return None
    if name in fn.nested:
        return fn.nested[name]
    cands = list(fn.nested.values())
    if role is not None:
        r = [c for c in cands if role(c)]
        if len(r) == 1:
            return r[0]
    if len(cands) == 1:
        return cands[0]
    return None


def passed_as_argument(outer: FuncInfo) -> Callable[[FuncInfo], bool]:
    """role predicate: the nested function is handed to a call as an argument (a callback / a submitted job) or its call is"""
    def pred(nf: FuncInfo) -> bool:
        for c in calls_in(outer):
            for a in list(c.args) + [k.value for k in c.keywords]:
                if isinstance(a, ast.Name) and a.id == nf.name:
                    return True
                if isinstance(a, ast.Call) and isinstance(a.func, ast.Name) and a.func.id == nf.name:
                    return True
        return False
    return pred


def unit_inline(modules: Sequence[str], keep: Sequence[str]) -> Callable[[FuncInfo], bool]:
    """Inline policy for the path analyses of one component: besides private helpers, every function / method defined in the
    component's own modules is part of the unit (a decision split off into another method, a request-reading stage, a shared
    function that both interface copies delegate to) - except the names the rules talk about (`keep`), generators and
    decorated definitions."""
    from .collect import default_inline
    mods, kept = tuple(modules), set(keep)

    def policy(fi: FuncInfo) -> bool:
        if default_inline(fi):
            return True
        return fi.module.name in mods and fi.name not in kept and not fi.is_generator() and all(d in ("staticmethod", "classmethod") for d in fi.decorators)
    return policy
