"""Path-sensitive dataflow over the AST (no CFG library, no solver).

A structured abstract interpreter: statements are executed over *sets of abstract states*;
`try/finally`, loops, early returns and exceptions are handled compositionally (each block
yields an Outcome: normal / return / raise / break / continue state sets), which gives the
same paths a statement-level CFG with duplicated finally-blocks would give.

A state is (env, facts, client-state):
  env    variable -> reaching definition as an *expression tree* (value numbering):
         ('const', v) ('param', n) ('call', callee, args, kwargs, tag) ('attr', b, n) ...
  facts  branch outcomes already taken on this path: {(value, True/False)}; a test whose
         value is already decided prunes the infeasible branch. Boolean-typed definitions
         are concretised to ('const', True/False) in the branch that decides them, so flags
         like `should_stop` stay correlated with the client's typestate.
  cs     client typestate (hashable), advanced by the client hooks.

Resolved calls into the repository may be inlined (client decides; depth bound stated by
the client). Loops run to a fixpoint over the (finite) set of head states; a variable that
takes a third distinct value inside a loop is widened to a loop symbol and facts mentioning
loop symbols are dropped on every back edge.
"""
from __future__ import annotations

import ast
import builtins
from typing import Any, Callable, Dict, FrozenSet, Iterable, List, Optional, Sequence, Set, Tuple

from .loader import AnalysisError, ClassInfo, FuncInfo, Module, Program, walk_shallow
from .report import Undecided

_SPAWNERS = ("ensure_future", "create_task", "run_coroutine_threadsafe")


def _spawned_not_awaited(node: ast.AST) -> bool:
    par = getattr(node, "_parent", None)
    return isinstance(par, ast.Call) and node in par.args and ast.unparse(par.func).split(".")[-1] in _SPAWNERS

Value = tuple

TOPV = ("top", "")
NONE = ("const", None)
TRUE = ("const", True)
FALSE = ("const", False)


def const(v: Any) -> Value:
    try:
        hash(v)
    except TypeError:
        v = repr(v)
    return ("const", v)


def contains(v: Any, sub: Value) -> bool:
    if v == sub:
        return True
    if isinstance(v, tuple):
        for x in v:
            if isinstance(x, tuple) and contains(x, sub):
                return True
    return False


def subterms(v: Any):
    if isinstance(v, tuple):
        if v and isinstance(v[0], str):
            yield v
        for x in v:
            if isinstance(x, tuple):
                yield from subterms(x)


def mentions_loop(v: Any, loop_id: Optional[int] = None) -> bool:
    for t in subterms(v):
        if len(t) >= 2 and t[0] == "loopvar" and (loop_id is None or t[1] == loop_id):
            return True
    return False


def is_boolish(v: Value) -> bool:
    if v[0] == "const":
        return isinstance(v[1], bool)
    if v[0] in ("cmp", "not"):
        return True
    if v[0] == "call" and v[1] in (("builtin", "isinstance"), ("builtin", "hasattr"), ("builtin", "callable")):
        return True
    if v[0] == "call" and v[1][0] == "attr" and v[1][2] in ("startswith", "endswith", "done", "empty", "cancel", "isdigit"):
        return True
    return False


def show(v: Any) -> str:
    """Readable, position-independent rendering of a value."""
    if not isinstance(v, tuple) or not v:
        return repr(v)
    k = v[0]
    if k == "const":
        return repr(v[1])
    if k in ("param", "free", "cell"):
        return v[1]
    if k == "global":
        return v[1].split(":")[-1]
    if k in ("ext", "builtin"):
        return v[1]
    if k == "func":
        return v[1].split(":")[-1]
    if k == "closure":
        return v[1].split(":")[-1]
    if k == "cls":
        return v[1].split(":")[-1]
    if k == "attr":
        return f"{show(v[1])}.{v[2]}"
    if k == "sub":
        return f"{show(v[1])}[{show(v[2])}]"
    if k == "slice":
        return ":".join("" if x == NONE else show(x) for x in v[1:])
    if k == "call":
        args = [show(a) for a in v[2]] + [f"{kk}={show(vv)}" for kk, vv in v[3]]
        return f"{show(v[1])}({', '.join(args)})"
    if k == "gen":
        args = [show(a) for a in v[2]] + [f"{kk}={show(vv)}" for kk, vv in v[3]]
        return f"{v[1].split(':')[-1]}({', '.join(args)})"
    if k == "binop":
        return f"({show(v[2])} {_OPS.get(v[1], v[1])} {show(v[3])})"
    if k == "cmp":
        return f"({show(v[2])} {_OPS.get(v[1], v[1])} {show(v[3])})"
    if k == "not":
        return f"(not {show(v[1])})"
    if k == "unop":
        return f"({v[1]} {show(v[2])})"
    if k == "and":
        return "(" + " and ".join(show(x) for x in v[1]) + ")"
    if k == "or":
        return "(" + " or ".join(show(x) for x in v[1]) + ")"
    if k == "tuple":
        return "(" + ", ".join(show(x) for x in v[1]) + ("," if len(v[1]) == 1 else "") + ")"
    if k == "list":
        return "[" + ", ".join(show(x) for x in v[1]) + "]"
    if k == "set":
        return "{" + ", ".join(show(x) for x in v[1]) + "}"
    if k == "dict":
        return "{" + ", ".join((f"{show(a)}: {show(b)}" if a is not None else f"**{show(b)}") for a, b in v[1]) + "}"
    if k == "record":
        return f"{v[1].split(':')[-1]}(" + ", ".join(f"{n}={show(x)}" for n, x in v[2]) + ")"
    if k == "obj":
        return f"<{v[1].split(':')[-1]}#{v[2]}>"
    if k == "partial":
        args = [show(v[1])] + [show(a) for a in v[2]] + [f"{kk}={show(vv)}" for kk, vv in v[3]]
        return f"partial({', '.join(args)})"
    if k == "mut":
        return f"mutated({show(v[1])})"
    if k == "when":
        return f"({show(v[2])} when " + " and ".join(show(c) for c in v[1]) + ")"
    if k == "phi":
        return "(" + " | ".join(show(x) for x in v[1]) + ")"
    if k == "star":
        return "*" + show(v[1])
    if k == "fstr":
        return "f'" + "".join(x[1] if x[0] == "const" and isinstance(x[1], str) else "{" + show(x) + "}" for x in v[1]) + "'"
    if k == "elem":
        return f"elem({show(v[1])})"
    if k == "ifexp":
        return f"({show(v[2])} if {show(v[1])} else {show(v[3])})"
    if k == "unpack":
        return f"{show(v[1])}#{v[2]}"
    if k == "enter":
        return f"enter({show(v[1])})"
    if k == "comp":
        return f"{v[1]}comp({show(v[2])} for _ in {show(v[3])}" + ("" if not v[4] else " if " + " and ".join(show(c) for c in v[4])) + ")"
    if k == "lambda":
        return f"lambda#{v[1]}"
    if k == "loopvar":
        return f"loop{v[1]}.{v[2]}"
    if k == "yieldval":
        return "yield()"
    if k == "exc":
        return f"exc({v[1]})"
    if k == "top":
        return "?" + str(v[1])
    return repr(v)


_OPS = {
    "Add": "+", "Sub": "-", "Mult": "*", "Div": "/", "Mod": "%", "FloorDiv": "//", "BitOr": "|", "BitAnd": "&",
    "Eq": "==", "NotEq": "!=", "Lt": "<", "LtE": "<=", "Gt": ">", "GtE": ">=", "Is": "is", "IsNot": "is not",
    "In": "in", "NotIn": "not in",
}


class State:
    __slots__ = ("env", "facts", "cs", "_h")

    def __init__(self, env: Dict[Any, Value], facts: FrozenSet[Tuple[Value, bool]], cs: Any) -> None:
        self.env = env
        self.facts = facts
        self.cs = cs
        self._h: Optional[int] = None

    def __hash__(self) -> int:
        if self._h is None:
            self._h = hash((frozenset(self.env.items()), self.facts, self.cs))
        return self._h

    def __eq__(self, other: object) -> bool:
        return (
            isinstance(other, State)
            and hash(self) == hash(other)
            and self.cs == other.cs
            and self.facts == other.facts
            and self.env == other.env
        )

    def set(self, key: Any, val: Value) -> "State":
        e = dict(self.env)
        e[key] = val
        return State(e, self.facts, self.cs)

    def drop(self, pred: Callable[[Any], bool]) -> "State":
        return State({k: v for k, v in self.env.items() if not pred(k)}, self.facts, self.cs)

    def with_cs(self, cs: Any) -> "State":
        if cs == self.cs:
            return self
        return State(self.env, self.facts, cs)

    def with_fact(self, v: Value, truth: bool) -> "State":
        env = self.env
        if is_boolish(v) and v[0] != "const":
            c = TRUE if truth else FALSE
            if any(val == v for val in env.values()):
                env = {k: (c if val == v else val) for k, val in env.items()}
        return State(env, self.facts | {(v, truth)}, self.cs)


class Outcome:
    __slots__ = ("next", "ret", "exc", "brk", "cont")

    def __init__(self) -> None:
        self.next: List[State] = []
        self.ret: List[Tuple[Value, State]] = []
        self.exc: List[Tuple[str, State]] = []
        self.brk: List[State] = []
        self.cont: List[State] = []

    def absorb_abrupt(self, o: "Outcome") -> None:
        self.ret.extend(o.ret)
        self.exc.extend(o.exc)
        self.brk.extend(o.brk)
        self.cont.extend(o.cont)


def dedup(states: Iterable[State]) -> List[State]:
    seen: Set[State] = set()
    out = []
    for s in states:
        if s not in seen:
            seen.add(s)
            out.append(s)
    return out


def dedup_pairs(pairs):
    seen = set()
    out = []
    for a, s in pairs:
        k = (a, s)
        if k not in seen:
            seen.add(k)
            out.append((a, s))
    return out


# ------------------------------------------------------------------ exceptions
ANY_EXC = "Exception*"  # some unknown subclass of Exception
ANY_BASE = "BaseException*"  # GeneratorExit / CancelledError / KeyboardInterrupt ...

_EXT_EXC_PARENTS = {
    "asyncio.TimeoutError": "TimeoutError",
    "asyncio.CancelledError": "BaseException",
    "queue.Empty": "Exception",
    "queue.Full": "Exception",
    "json.JSONDecodeError": "ValueError",
    "decimal.InvalidOperation": "ArithmeticError",
    "StopAsyncIteration": "Exception",
}


# stdlib names that are the same literal on every platform the package supports
_EXT_LITERALS = {"os.pardir": "..", "os.curdir": ".", "os.path.pardir": "..", "os.path.curdir": ".", "os.extsep": "."}

_CONTAINER_MUTATORS = {"append", "extend", "insert", "update", "setdefault", "pop", "popitem", "clear", "add", "discard", "remove"}


class Frame:
    __slots__ = ("fn", "self_cls", "no", "nonlocals", "cellvars")

    def __init__(self, fn: FuncInfo, self_cls: Optional[ClassInfo], no: int) -> None:
        self.fn = fn
        self.self_cls = self_cls
        self.no = no
        self.nonlocals: Set[str] = set()
        for n in walk_shallow(fn.node):
            if isinstance(n, (ast.Nonlocal, ast.Global)):
                self.nonlocals.update(n.names)
        # names of this function that a nested closure rebinds through `nonlocal`: their value
        # at a read is whatever the closure last stored -> treated as an opaque cell
        self.cellvars: Set[str] = set()
        for n in ast.walk(fn.node):
            if n is not fn.node and isinstance(n, (ast.FunctionDef, ast.AsyncFunctionDef)):
                own = {a.arg for a in n.args.args + n.args.kwonlyargs + n.args.posonlyargs} | {x.id for x in ast.walk(n) if isinstance(x, ast.Name) and isinstance(x.ctx, ast.Store)}
                for m in walk_shallow(n):
                    if isinstance(m, ast.Nonlocal):
                        self.cellvars.update(m.names)
                    # ... or whose object it changes in place (`box[0] = v`, `state["k"] = v`, `seen.append(v)`): the contents
                    # read by the enclosing function afterwards are the closure's, not the literal it was created from
                    tgt = None
                    if isinstance(m, (ast.Subscript, ast.Attribute)) and isinstance(m.ctx, (ast.Store, ast.Del)) and isinstance(m.value, ast.Name):
                        tgt = m.value.id
                    elif isinstance(m, ast.Call) and isinstance(m.func, ast.Attribute) and isinstance(m.func.value, ast.Name) and m.func.attr in _CONTAINER_MUTATORS:
                        tgt = m.func.value.id
                    if tgt is not None and tgt not in own:
                        self.cellvars.add(tgt)
        self.cellvars -= self.nonlocals


class Client:
    """Override the hooks you need."""

    max_inline_depth = 3

    def init_cs(self) -> Any:
        return None

    def want_inline(self, fi: FuncInfo, interp: "Interp", node: ast.AST) -> bool:
        return False

    def on_call(self, interp: "Interp", callee: Value, args: Sequence[Value], kwargs: Sequence[Tuple[str, Value]],
                node: ast.Call, st: State) -> Optional[List[Tuple[Value, State]]]:
        return None

    def call_raises(self, interp: "Interp", callee: Value, node: ast.AST, st: State) -> List[str]:
        return [ANY_EXC]

    def pre_call_states(self, interp: "Interp", callee: Value, args: Sequence[Value], kwargs: Sequence[Tuple[str, Value]],
                        node: ast.Call, st: State) -> List[State]:
        """May fork the state before a non-inlined call (e.g. decide a boolean argument both ways)."""
        return [st]

    def after_call(self, interp: "Interp", callee: Value, args: Sequence[Value], kwargs: Sequence[Tuple[str, Value]],
                   node: ast.Call, st: State) -> State:
        """Effect of a non-inlined call that returned normally (raise outcomes keep the pre-call state)."""
        return st

    def await_raises(self, interp: "Interp", node: ast.AST) -> List[str]:
        return []

    def after_await(self, interp: "Interp", node: ast.AST, st: State) -> State:
        """State after the coroutine was suspended and resumed: other tasks ran in between (clients drop what they may have changed)."""
        return st

    def on_yield(self, interp: "Interp", val: Value, node: ast.AST, st: State) -> State:
        return st

    def yield_raises(self, interp: "Interp", node: ast.AST) -> List[str]:
        return [ANY_BASE]

    def on_yield_from(self, interp: "Interp", val: Value, node: ast.AST, st: State) -> State:
        return st

    def on_store(self, interp: "Interp", key: Value, val: Value, node: ast.AST, st: State) -> State:
        return st

    def on_local(self, interp: "Interp", name: str, val: Value, node: ast.AST, st: State) -> State:
        """a local variable of the analysed function is (re)bound"""
        return st

    def on_delete(self, interp: "Interp", key: Value, node: ast.AST, st: State) -> State:
        return st

    def on_raise(self, interp: "Interp", exc: Value, node: ast.AST, st: State) -> State:
        return st

    def on_stmt(self, interp: "Interp", stmt: ast.stmt, st: State) -> State:
        return st

    def on_branch(self, interp: "Interp", test: Value, truth: bool, node: ast.AST, st: State) -> State:
        return st

    def on_enter(self, interp: "Interp", fi: FuncInfo, st: State) -> State:
        return st

    def on_leave(self, interp: "Interp", fi: FuncInfo, st: State) -> State:
        return st


class Interp:
    STEP_LIMIT = 400000

    def __init__(self, program: Program, client: Client) -> None:
        self.p = program
        self.client = client
        self.frames: List[Frame] = []
        self.steps = 0
        self.paths = 0
        self._tag = 0
        self._tags: Dict[int, int] = {}
        self._loop_ids: Dict[int, int] = {}
        self.inlined: List[str] = []
        self.unresolved_calls = 0
        self.resolved_calls = 0

    # ------------------------------------------------------------ utilities
    def tag(self, node: ast.AST) -> int:
        k = id(node)
        if k not in self._tags:
            self._tags[k] = len(self._tags) + 1
        return self._tags[k]

    @property
    def frame(self) -> Frame:
        return self.frames[-1]

    def lkey(self, name: str) -> Tuple[str, int, str]:
        return ("L", self.frame.no, name)

    def where(self, node: ast.AST) -> str:
        return f"{self.frame.fn.module.relpath}:{getattr(node, 'lineno', '?')}"

    def tick(self) -> None:
        self.steps += 1
        if self.steps > self.STEP_LIMIT:
            raise Undecided("state explosion in path-sensitive dataflow (step limit)")

    # ----------------------------------------------------------------- entry
    def run(self, fn: FuncInfo, self_cls: Optional[ClassInfo] = None,
            bind: Optional[Dict[str, Value]] = None, cs: Any = None) -> Outcome:
        """Analyse `fn` as an entry point. Parameters are symbolic ('param', name) unless bound."""
        env: Dict[Any, Value] = {}
        self.frames.append(Frame(fn, self_cls or fn.cls, 0))
        try:
            for name in self._all_params(fn):
                env[("L", 0, name)] = (bind or {}).get(name, ("param", name))
            st = State(env, frozenset(), self.client.init_cs() if cs is None else cs)
            st = self.client.on_enter(self, fn, st)
            out = self.exec_block(fn.node.body, [st])
            # falling off the end == return None
            for s in out.next:
                out.ret.append((NONE, s))
            out.next = []
            out.ret = dedup_pairs(out.ret)
            out.exc = dedup_pairs(out.exc)
            self.paths += len(out.ret) + len(out.exc)
            return out
        finally:
            self.frames.pop()

    def _all_params(self, fn: FuncInfo) -> List[str]:
        a = fn.node.args
        names = [x.arg for x in a.posonlyargs + a.args + a.kwonlyargs]
        if a.vararg:
            names.append(a.vararg.arg)
        if a.kwarg:
            names.append(a.kwarg.arg)
        return names

    # ------------------------------------------------------------ statements
    def exec_block(self, stmts: Sequence[ast.stmt], states: List[State]) -> Outcome:
        out = Outcome()
        cur = dedup(states)
        for st_node in stmts:
            if not cur:
                break
            o = self.exec_stmt(st_node, cur)
            out.absorb_abrupt(o)
            cur = dedup(o.next)
        out.next = cur
        return out

    def exec_stmt(self, node: ast.stmt, states: List[State]) -> Outcome:
        out = Outcome()
        for st in states:
            self.tick()
            st = self.client.on_stmt(self, node, st)
            m = getattr(self, "s_" + type(node).__name__, None)
            if m is None:
                raise Undecided(f"statement kind {type(node).__name__} not supported at {self.where(node)}")
            o = m(node, st)
            out.next.extend(o.next)
            out.absorb_abrupt(o)
        return out

    def _ev(self, expr: ast.expr, st: State, out: Outcome) -> List[Tuple[Value, State]]:
        vals, excs = self.eval(expr, st)
        out.exc.extend(excs)
        return vals

    def s_Expr(self, node: ast.Expr, st: State) -> Outcome:
        out = Outcome()
        for _, s in self._ev(node.value, st, out):
            out.next.append(s)
        return out

    def s_Pass(self, node, st):
        out = Outcome()
        out.next.append(st)
        return out

    s_Nonlocal = s_Pass
    s_Global = s_Pass
    s_Import = s_Pass
    s_ImportFrom = s_Pass

    def s_Assign(self, node: ast.Assign, st: State) -> Outcome:
        out = Outcome()
        for v, s in self._ev(node.value, st, out):
            cur = [s]
            for tgt in node.targets:
                nxt = []
                for s2 in cur:
                    nxt.extend(self.assign(tgt, v, s2, out, node))
                cur = nxt
            out.next.extend(cur)
        return out

    def s_AnnAssign(self, node: ast.AnnAssign, st: State) -> Outcome:
        out = Outcome()
        if node.value is None:
            out.next.append(st)
            return out
        for v, s in self._ev(node.value, st, out):
            out.next.extend(self.assign(node.target, v, s, out, node))
        return out

    def s_AugAssign(self, node: ast.AugAssign, st: State) -> Outcome:
        out = Outcome()
        load = _as_load(node.target)
        for old, s in self._ev(load, st, out):
            for v, s2 in self._ev(node.value, s, out):
                nv = text_term(("binop", type(node.op).__name__, old, v))
                out.next.extend(self.assign(node.target, nv, s2, out, node))
        return out

    def assign(self, tgt: ast.expr, v: Value, st: State, out: Outcome, node: ast.AST) -> List[State]:
        if isinstance(tgt, ast.Name):
            key = self._name_key(tgt.id)
            st = self.client.on_local(self, tgt.id, v, node, st)
            return [st.set(key, v)]
        if isinstance(tgt, (ast.Tuple, ast.List)):
            cur = [st]
            if v[0] == "record":
                v = ("tuple", tuple(y for _n, y in v[2]))
            for i, e in enumerate(tgt.elts):
                if isinstance(e, ast.Starred):
                    sub = ("unpack*", v, i)
                    e = e.value
                elif v[0] == "tuple" and len(v[1]) == len(tgt.elts) and not any(x[0] == "star" for x in v[1]):
                    sub = v[1][i]
                elif v[0] == "call" and v[1][0] == "attr" and v[1][2] == "span" and not v[2] and not v[3] and len(tgt.elts) == 2:
                    # `start, end = m.span()` is `m.start()`, `m.end()` of the same match object
                    sub = ("call", ("attr", v[1][1], "start" if i == 0 else "end"), (), (), v[4] if len(v) > 4 else 0)
                else:
                    sub = ("unpack", v, i)
                nxt = []
                for s in cur:
                    nxt.extend(self.assign(e, sub, s, out, node))
                cur = nxt
            return cur
        if isinstance(tgt, ast.Attribute):
            res = []
            for b, s in self._ev(tgt.value, st, out):
                key = ("attr", b, tgt.attr)
                s = self.client.on_store(self, key, v, node, s)
                res.append(s.set(("H", key), v))
            return res
        if isinstance(tgt, ast.Subscript):
            res = []
            for b, s in self._ev(tgt.value, st, out):
                for i, s2 in self._ev_slice(tgt.slice, s, out):
                    key = ("sub", b, i)
                    for e in self.client.call_raises(self, ("setitem", b), node, s2):
                        out.exc.append((e, s2))
                    s3 = self.client.on_store(self, key, v, node, s2)
                    res.append(s3.set(("H", key), v))
            return res
        raise Undecided(f"assignment target {type(tgt).__name__} at {self.where(node)}")

    def _name_key(self, name: str):
        fr = self.frame
        if name in fr.nonlocals:
            return ("C", name)
        return ("L", fr.no, name)

    def s_Delete(self, node: ast.Delete, st: State) -> Outcome:
        out = Outcome()
        cur = [st]
        for tgt in node.targets:
            nxt = []
            for s in cur:
                if isinstance(tgt, ast.Name):
                    nxt.append(s.drop(lambda k, kk=self._name_key(tgt.id): k == kk))
                elif isinstance(tgt, ast.Subscript):
                    for b, s2 in self._ev(tgt.value, s, out):
                        for i, s3 in self._ev_slice(tgt.slice, s2, out):
                            key = ("sub", b, i)
                            for e in self.client.call_raises(self, ("delitem", b), node, s3):
                                out.exc.append((e, s3))
                            s4 = self.client.on_delete(self, key, node, s3)
                            nxt.append(s4.drop(lambda k, kk=("H", key): k == kk))
                elif isinstance(tgt, ast.Attribute):
                    for b, s2 in self._ev(tgt.value, s, out):
                        key = ("attr", b, tgt.attr)
                        s4 = self.client.on_delete(self, key, node, s2)
                        nxt.append(s4.drop(lambda k, kk=("H", key): k == kk))
                else:
                    raise Undecided("del target")
            cur = nxt
        out.next = cur
        return out

    def s_Return(self, node: ast.Return, st: State) -> Outcome:
        out = Outcome()
        if node.value is None:
            out.ret.append((NONE, st))
            return out
        for v, s in self._ev(node.value, st, out):
            out.ret.append((v, s))
        return out

    def s_Raise(self, node: ast.Raise, st: State) -> Outcome:
        out = Outcome()
        if node.exc is None:
            cur = st.env.get(("X", self.frame.no))
            name = cur[1] if cur is not None else ANY_EXC
            out.exc.append((name, st))
            return out
        for v, s in self._ev(node.exc, st, out):
            s = self.client.on_raise(self, v, node, s)
            out.exc.append((self.exc_name(v), s))
        return out

    def exc_name(self, v: Value) -> str:
        if v[0] == "call":
            v = v[1]
        if v[0] == "cls":
            return v[1]
        if v[0] == "builtin":
            return v[1]
        if v[0] == "ext":
            return v[1]
        if v[0] == "exc":
            return v[1]
        return ANY_EXC

    def s_Break(self, node, st):
        out = Outcome()
        out.brk.append(st)
        return out

    def s_Continue(self, node, st):
        out = Outcome()
        out.cont.append(st)
        return out

    def s_Assert(self, node: ast.Assert, st: State) -> Outcome:
        out = Outcome()
        for truth, s in self.branch(node.test, st, out):
            if truth:
                out.next.append(s)
            else:
                out.exc.append(("AssertionError", s))
        return out

    def s_If(self, node: ast.If, st: State) -> Outcome:
        out = Outcome()
        t_states, f_states = [], []
        for truth, s in self.branch(node.test, st, out):
            (t_states if truth else f_states).append(s)
        if t_states:
            o = self.exec_block(node.body, t_states)
            out.next.extend(o.next)
            out.absorb_abrupt(o)
        if f_states:
            o = self.exec_block(node.orelse, f_states)
            out.next.extend(o.next)
            out.absorb_abrupt(o)
        return out

    def s_FunctionDef(self, node, st: State) -> Outcome:
        out = Outcome()
        fr = self.frame
        fi = self.p.func_of_node(node)
        if fi is None:
            raise Undecided("nested def not indexed")
        captured = []
        free = _free_names(node)
        for nm in sorted(free):
            k = self._name_key(nm)
            if k in st.env:
                captured.append((nm, st.env[k]))
        v = ("closure", fi.fq, tuple(captured))
        out.next.append(st.set(self._name_key(node.name), v))
        return out

    s_AsyncFunctionDef = s_FunctionDef

    def s_ClassDef(self, node, st):
        raise Undecided("class definition inside function")

    def s_With(self, node, st: State) -> Outcome:
        out = Outcome()
        cur = [st]
        exitstacks: List[Value] = []
        for item in node.items:
            nxt = []
            for s in cur:
                for v, s2 in self._ev(item.context_expr, s, out):
                    ev = ("enter", v)
                    if v[0] == "call" and v[1] in (("ext", "contextlib.ExitStack"), ("ext", "contextlib.AsyncExitStack")) and not v[2] and not v[3] and len(node.items) == 1:
                        # a callback stack: what is registered on it runs, last registered first, on every way out of the block
                        stk = ("exitstack", v[4])
                        s2 = s2.set(("H", ("stack", stk)), ("tuple", ()))
                        if item.optional_vars is not None:
                            nxt.extend(self.assign(item.optional_vars, stk, s2, out, node))
                        else:
                            nxt.append(s2)
                        exitstacks.append(stk)
                        continue
                    if v[0] == "obj":
                        try:
                            en_name = "__aenter__" if isinstance(node, ast.AsyncWith) else "__enter__"
                            if self.p.find_method(self.p.cls(v[1]), en_name) is not None:
                                entered = self.call(("attr", v, en_name), (), (), node, s2, out, None)
                                for ev2, s3 in entered:
                                    if item.optional_vars is not None:
                                        nxt.extend(self.assign(item.optional_vars, ev2, s3, out, node))
                                    else:
                                        nxt.append(s3)
                                continue
                        except Exception:
                            pass
                    if item.optional_vars is not None:
                        nxt.extend(self.assign(item.optional_vars, ev, s2, out, node))
                    else:
                        nxt.append(s2)
            cur = nxt
        o = self.exec_block(node.body, cur)
        # a context manager that is an object of a private class of the repository: its __exit__ / __aexit__ runs on every way
        # out of the block (like the `finally` it usually replaces); its return value decides whether an exception is swallowed
        managers = []
        if len(node.items) == 1:
            for s in cur[:1]:
                pass
            try:
                cm_vals = [v for v, _s in self._ev(node.items[0].context_expr, st, Outcome())]
            except Undecided:
                cm_vals = []
            if len(cm_vals) == 1 and cm_vals[0][0] == "obj":
                try:
                    ci_ = self.p.cls(cm_vals[0][1])
                    ex_name = "__aexit__" if isinstance(node, ast.AsyncWith) else "__exit__"
                    if self.p.find_method(ci_, ex_name) is not None:
                        managers.append((cm_vals[0], ex_name))
                except Exception:
                    pass
        if exitstacks and not managers:
            managers.append((exitstacks[0], "<callbacks>"))
        if managers:
            cm, ex_name = managers[0]

            def leave(s: State, exc_args) -> List[Tuple[Value, State]]:
                if ex_name == "<callbacks>":
                    cbs = s.env.get(("H", ("stack", cm)), ("tuple", ()))
                    states = [s]
                    for cb in reversed(cbs[1] if cbs[0] == "tuple" else ()):
                        nxt_ = []
                        for s_ in states:
                            if cb[0] == "exitof":
                                if cb[1][0] == "obj":
                                    nxt_.extend(s3 for _v, s3 in self.call(("attr", cb[1], "__exit__"), exc_args, (), node, s_, out, None))
                                else:
                                    nxt_.extend(s3 for _v, s3 in self.call(("attr", cb[1], "close"), (), (), node, s_, out, None))
                            else:
                                nxt_.extend(s3 for _v, s3 in self.call(cb[1], tuple(cb[2]), tuple(cb[3]), node, s_, out, None))
                        states = nxt_
                    return [(FALSE, s_) for s_ in states]  # (a callback stack does not swallow the exception: callbacks return nothing)
                return self.call(("attr", cm, ex_name), exc_args, (), node, s, out, None)
            none3 = (NONE, NONE, NONE)
            for s in o.next:
                out.next.extend(s2 for _v, s2 in leave(s, none3))
            for v, s in o.ret:
                out.ret.extend((v, s2) for _v, s2 in leave(s, none3))
            for s in o.brk:
                out.brk.extend(s2 for _v, s2 in leave(s, none3))
            for s in o.cont:
                out.cont.extend(s2 for _v, s2 in leave(s, none3))
            for exc, s in o.exc:
                for v2, s2 in leave(s, (("exc", exc), ("exc", exc), ("top", "traceback"))):
                    if self.truth(v2, s2) is True:
                        out.next.append(s2)  # swallowed
                    else:
                        out.exc.append((exc, s2))
            return out
        # context-manager exit behaves like a finally that does not swallow
        out.next.extend(o.next)
        out.absorb_abrupt(o)
        return out

    s_AsyncWith = s_With

    def s_Try(self, node: ast.Try, st: State) -> Outcome:
        body = self.exec_block(node.body, [st])
        res = Outcome()
        res.ret.extend(body.ret)
        res.brk.extend(body.brk)
        res.cont.extend(body.cont)
        # else
        if node.orelse and body.next:
            o = self.exec_block(node.orelse, body.next)
            res.next.extend(o.next)
            res.absorb_abrupt(o)
        else:
            res.next.extend(body.next)
        # handlers
        for exc, s in dedup_pairs(body.exc):
            remaining = True
            for h in node.handlers:
                m = self.handler_matches(h, exc)
                if m == "no":
                    continue
                s_h = s.set(("X", self.frame.no), ("exc", exc if m == "yes" else self._handler_name(h) or exc))
                if h.name:
                    s_h = s_h.set(self._name_key(h.name), ("exc", exc if m == "yes" and not exc.endswith("*") else (self._handler_name(h) or exc)))
                o = self.exec_block(h.body, [s_h])
                clean = lambda x: x.drop(lambda k, kk=("X", self.frame.no): k == kk)  # noqa: E731
                res.next.extend(clean(x) for x in o.next)
                res.ret.extend((v, clean(x)) for v, x in o.ret)
                res.exc.extend(o.exc)
                res.brk.extend(clean(x) for x in o.brk)
                res.cont.extend(clean(x) for x in o.cont)
                if m == "yes":
                    remaining = False
                    break
            if remaining:
                res.exc.append((exc, s))
        if not node.finalbody:
            return res
        # finally: run on every continuation kind
        fin = Outcome()

        def through(states: List[State]) -> Outcome:
            return self.exec_block(node.finalbody, states)

        if res.next:
            o = through(res.next)
            fin.next.extend(o.next)
            fin.absorb_abrupt(o)
        for v, s in dedup_pairs(res.ret):
            o = through([s])
            fin.ret.extend((v, x) for x in o.next)
            fin.absorb_abrupt(o)
        for e, s in dedup_pairs(res.exc):
            o = through([s.set(("X", self.frame.no), ("exc", e))])
            fin.exc.extend((e, x.drop(lambda k, kk=("X", self.frame.no): k == kk)) for x in o.next)
            fin.absorb_abrupt(o)
        if res.brk:
            o = through(dedup(res.brk))
            fin.brk.extend(o.next)
            fin.absorb_abrupt(o)
        if res.cont:
            o = through(dedup(res.cont))
            fin.cont.extend(o.next)
            fin.absorb_abrupt(o)
        return fin

    def _handler_name(self, h: ast.ExceptHandler) -> Optional[str]:
        if h.type is None:
            return "BaseException"
        if isinstance(h.type, ast.Tuple):
            return "|".join(self._exc_type_name(t) for t in h.type.elts)
        return self._exc_type_name(h.type)

    def _exc_type_name(self, t: ast.expr) -> str:
        r = self.p.resolve_dotted(self.frame.fn.module, t) if isinstance(t, (ast.Name, ast.Attribute)) else None
        if isinstance(r, ClassInfo):
            return r.fq
        if isinstance(r, tuple) and r[0] == "ext":
            return r[1]
        if isinstance(t, ast.Name):
            return t.id
        return ast.unparse(t)

    def handler_matches(self, h: ast.ExceptHandler, exc: str) -> str:
        if h.type is None:
            return "yes"
        types = h.type.elts if isinstance(h.type, ast.Tuple) else [h.type]
        res = "no"
        for t in types:
            m = self.exc_is_a(exc, self._exc_type_name(t))
            if m == "yes":
                return "yes"
            if m == "maybe":
                res = "maybe"
        return res

    def exc_ancestors(self, name: str) -> List[str]:
        out = [name]
        if ":" in name:
            try:
                ci = self.p.cls(name)
            except AnalysisError:
                return out + ["Exception", "BaseException"]
            for c in self.p.mro(ci)[1:]:
                if isinstance(c, ClassInfo):
                    out.append(c.fq)
                else:
                    out.extend(self.exc_ancestors(c))
            return out
        if name in _EXT_EXC_PARENTS:
            return out + self.exc_ancestors(_EXT_EXC_PARENTS[name])
        b = getattr(builtins, name, None)
        if isinstance(b, type) and issubclass(b, BaseException):
            return [c.__name__ for c in b.__mro__ if c is not object]
        return out + ["Exception", "BaseException"]

    def exc_is_a(self, exc: str, handler: str) -> str:
        if exc == ANY_EXC:
            if handler in ("Exception", "BaseException"):
                return "yes"
            anc = self.exc_ancestors(handler)
            if "Exception" in anc and handler not in ("GeneratorExit", "KeyboardInterrupt", "SystemExit", "asyncio.CancelledError"):
                return "maybe"
            return "no"
        if exc == ANY_BASE:
            if handler == "BaseException":
                return "yes"
            if handler in ("GeneratorExit", "asyncio.CancelledError", "KeyboardInterrupt"):
                return "maybe"
            return "no"
        return "yes" if handler in self.exc_ancestors(exc) else "no"

    # ---------------------------------------------------------------- loops
    def _loop_id(self, node: ast.AST) -> int:
        k = id(node)
        if k not in self._loop_ids:
            self._loop_ids[k] = len(self._loop_ids) + 1
        return self._loop_ids[k]

    def _run_loop(self, node, st: State, step: Callable[[State, Outcome], Tuple[List[State], List[State]]]) -> Outcome:
        """step(head_state, out) -> (states entering the body, states leaving normally via the test)"""
        out = Outcome()
        lid = self._loop_id(node)
        seen: Set[State] = set()
        seen_vals: Dict[Any, Set[Value]] = {}
        work = [st]
        exits: List[State] = []
        iters = 0
        while work:
            h = work.pop()
            if h in seen:
                continue
            seen.add(h)
            iters += 1
            if iters > 400:
                raise Undecided(f"loop fixpoint did not stabilise at {self.where(node)}")
            for k, v in h.env.items():
                seen_vals.setdefault(k, set()).add(v)
            enter, leave = step(h, out)
            exits.extend(leave)
            if not enter:
                continue
            o = self.exec_block(node.body, enter)
            out.ret.extend(o.ret)
            out.exc.extend(o.exc)
            exits_brk = o.brk
            back = o.next + o.cont
            for b in dedup(back):
                work.append(self._widen(b, h, lid, seen_vals))
            # break skips the else clause
            out.next.extend(exits_brk)
        exits = dedup(exits)
        if node.orelse and exits:
            o = self.exec_block(node.orelse, exits)
            out.next.extend(o.next)
            out.absorb_abrupt(o)
        else:
            out.next.extend(exits)
        out.next = dedup(out.next)
        return out

    def _widen(self, b: State, h: State, lid: int, seen_vals: Dict[Any, Set[Value]]) -> State:
        env = dict(b.env)
        widened: List[Value] = []
        for k, v in b.env.items():
            old = h.env.get(k)
            if old == v:
                continue
            lv = ("loopvar", lid, _kname(k))
            vals = seen_vals.setdefault(k, set())
            if v == lv:
                continue
            if (old is not None and old == lv) or (v not in vals and len(vals) >= 2) or mentions_loop(v, lid) or _depth(v) > 12:
                env[k] = lv
                widened.append(lv)
        # facts learned inside the loop body may be about values that are re-computed in the next
        # iteration (same call site => same symbol): keep only what already held at the head
        facts = b.facts & h.facts
        if any(mentions_loop(f[0], lid) for f in facts):
            facts = frozenset(f for f in facts if not mentions_loop(f[0], lid))
        # other definitions that mention a loop symbol are stale names after the back edge
        for k, v in list(env.items()):
            if v[0] != "loopvar" and mentions_loop(v, lid):
                env[k] = ("loopvar", lid, _kname(k))
        return State(env, facts, b.cs)

    def s_While(self, node: ast.While, st: State) -> Outcome:
        def step(h: State, out: Outcome):
            enter, leave = [], []
            for truth, s in self.branch(node.test, h, out):
                (enter if truth else leave).append(s)
            return enter, leave

        return self._run_loop(node, st, step)

    def s_For(self, node, st: State) -> Outcome:
        pre = Outcome()
        res = Outcome()
        for itv, s0 in self._ev(node.iter, st, pre):
            if itv[0] == "gen" and self._should_inline_gen(itv, node):
                raise Undecided(f"for-loop over an inlined generator is not supported at {self.where(node)}")

            if itv[0] in ("tuple", "list") and len(itv[1]) <= 8 and not any(x[0] == "star" for x in itv[1]) and isinstance(node, ast.For):
                # a loop over a literal table (or a module-level literal tuple) runs exactly once per entry, in order
                o = self._unrolled_for(node, list(itv[1]), s0)
                res.next.extend(o.next)
                res.absorb_abrupt(o)
                continue
            nonempty = self._known_nonempty(itv, s0)

            nxt_name = "__anext__" if isinstance(node, ast.AsyncFor) else "__next__"
            iter_cls = None
            if itv[0] == "obj":
                try:
                    c_ = self.p.cls(itv[1])
                    if self.p.find_method(c_, nxt_name) is not None:
                        iter_cls = c_
                except Exception:
                    iter_cls = None

            def step(h: State, out: Outcome, itv=itv, s0=s0, nonempty=nonempty, iter_cls=iter_cls, nxt_name=nxt_name):
                if iter_cls is not None:
                    # an explicit iterator object of a private class: each round calls its __next__ (inlined); its StopIteration
                    # (StopAsyncIteration) leaves the loop normally, anything else it raises propagates - what a generator does
                    sub = Outcome()
                    entered: List[State] = []
                    leave: List[State] = []
                    for v_, s1 in self.call(("attr", itv, nxt_name), (), (), node, h, sub, None):
                        entered.extend(self.assign(node.target, v_, s1, out, node))
                    stop = "StopAsyncIteration" if nxt_name == "__anext__" else "StopIteration"
                    for exc_, s2 in sub.exc:
                        if exc_ == stop:
                            leave.append(s2)
                        else:
                            out.exc.append((exc_, s2))
                    return entered, leave
                elem = ("elem", itv)
                for e in self.client.call_raises(self, ("next", itv), node, h):
                    out.exc.append((e, h))
                entered = self.assign(node.target, elem, h, out, node)
                if nonempty and h is s0:
                    return entered, []  # a collection known to be non-empty is iterated at least once
                return entered, [h]

            o = self._run_loop(node, s0, step)
            res.next.extend(o.next)
            res.absorb_abrupt(o)
        res.exc.extend(pre.exc)
        return res

    s_AsyncFor = s_For

    def _unrolled_for(self, node: ast.For, elems: List[Value], s0: State) -> Outcome:
        out = Outcome()
        cur = [s0]
        for el in elems:
            nxt: List[State] = []
            for s in cur:
                for s1 in self.assign(node.target, el, s, out, node):
                    o = self.exec_block(node.body, [s1])
                    nxt.extend(o.next)
                    nxt.extend(o.cont)
                    out.next.extend(o.brk)  # break leaves the loop and skips its else clause
                    out.ret.extend(o.ret)
                    out.exc.extend(o.exc)
            cur = dedup(nxt)
            if not cur:
                break
        if node.orelse and cur:
            o = self.exec_block(node.orelse, cur)
            out.next.extend(o.next)
            out.absorb_abrupt(o)
        else:
            out.next.extend(cur)
        out.next = dedup(out.next)
        return out

    def _known_nonempty(self, itv: Value, st: State) -> bool:
        v = itv
        while True:
            if self.truth(v, st) is True:
                return True
            if v[0] == "call" and v[1] in (("builtin", "reversed"), ("builtin", "iter"), ("builtin", "sorted"), ("builtin", "list"), ("builtin", "tuple"), ("builtin", "enumerate")) and len(v[2]) >= 1:
                v = v[2][0]
                continue
            return False

    def _should_inline_gen(self, v: Value, node) -> bool:
        return False

    # ---------------------------------------------------------- expressions
    def branch(self, test: ast.expr, st: State, out: Outcome) -> List[Tuple[bool, State]]:
        """Evaluate a test with short-circuit path splitting."""
        if isinstance(test, ast.UnaryOp) and isinstance(test.op, ast.Not):
            return [(not t, s) for t, s in self.branch(test.operand, st, out)]
        if isinstance(test, ast.BoolOp):
            is_and = isinstance(test.op, ast.And)
            cur = [st]
            res: List[Tuple[bool, State]] = []
            for i, sub in enumerate(test.values):
                nxt = []
                for s in cur:
                    for t, s2 in self.branch(sub, s, out):
                        if is_and:
                            if t:
                                nxt.append(s2)
                            else:
                                res.append((False, s2))
                        else:
                            if t:
                                res.append((True, s2))
                            else:
                                nxt.append(s2)
                cur = nxt
            res.extend((is_and, s) for s in cur)
            return res
        res = []
        for v, s in self._ev(test, st, out):
            res.extend(self.decide(v, s, test))
        return res

    def decide(self, v: Value, s: State, node: ast.AST) -> List[Tuple[bool, State]]:
        if v[0] == "not":
            return [(not t, s2) for t, s2 in self.decide(v[1], s, node)]
        if v[0] in ("and", "or") and len(v) == 2 and isinstance(v[1], tuple) and self.truth(v, s) is None:
            # a boolean VALUE (e.g. what an inlined helper returned): split it like the same expression written in the test
            is_and = v[0] == "and"
            cur = [s]
            res: List[Tuple[bool, State]] = []
            for part in v[1]:
                nxt = []
                for s1 in cur:
                    for t, s2 in self.decide(part, s1, node):
                        if t == is_and:
                            nxt.append(s2)
                        else:
                            res.append((t, s2))
                cur = nxt
            res.extend((is_and, s1) for s1 in cur)
            return res
        known = self.truth(v, s)
        if known is not None:
            return [(known, self.client.on_branch(self, v, known, node, s))]
        return [
            (True, self.client.on_branch(self, v, True, node, s.with_fact(v, True))),
            (False, self.client.on_branch(self, v, False, node, s.with_fact(v, False))),
        ]

    def truth(self, v: Value, s: State) -> Optional[bool]:
        if v[0] == "const":
            return bool(v[1])
        if v[0] == "not":
            t = self.truth(v[1], s)
            return None if t is None else (not t)
        if v[0] in ("closure", "func", "cls", "lambda", "partial"):
            return True
        if v[0] == "obj":
            try:
                c_ = self.p.cls(v[1])
                if self.p.find_method(c_, "__bool__") is None and self.p.find_method(c_, "__len__") is None:
                    return True
            except Exception:
                pass
        if (v, True) in s.facts:
            return True
        if (v, False) in s.facts:
            return False
        if v[0] == "call" and v[1] == ("builtin", "isinstance") and len(v[2]) == 2 and v[2][0][0] == "global":
            # isinstance(<module-level singleton NAME = C()>, C): decided by the singleton's class
            inst_cls = self._singleton_class(v[2][0])
            if inst_cls is not None:
                cands = [v[2][1]] if v[2][1][0] != "tuple" else list(v[2][1][1])
                if all(c_[0] == "cls" for c_ in cands):
                    try:
                        mro_ = [x.fq for x in self.p.mro(self.p.cls(inst_cls)) if isinstance(x, ClassInfo)]
                        return any(c_[1] in mro_ for c_ in cands)
                    except Exception:
                        pass
        if v[0] == "cmp":
            op, a, b = v[1], v[2], v[3]
            if a[0] == "const" and b[0] == "const":
                try:
                    if op == "Eq":
                        return a[1] == b[1]
                    if op == "Is":
                        return a[1] is b[1] if (a[1] is None or b[1] is None or isinstance(a[1], bool)) else None
                    if op == "In":
                        return a[1] in b[1]
                    if op == "Lt":
                        return a[1] < b[1]
                    if op == "Gt":
                        return a[1] > b[1]
                except Exception:
                    return None
            if op == "In" and a[0] == "const" and b[0] in ("set", "tuple", "list") and all(x[0] == "const" for x in b[1]):
                return a in b[1]
            if op == "Is" and (self._is_sentinel(a) or self._is_sentinel(b)):
                other = b if self._is_sentinel(a) else a
                if other[0] in ("record", "obj", "tuple", "list", "dict", "fstr", "const", "set", "partial", "lambda", "func", "cls", "closure", "comp", "binop"):
                    return False  # a module-level `object()` sentinel is identical to nothing that was built elsewhere
            if op == "Is" and b == NONE:
                if a[0] in ("closure", "func", "cls", "tuple", "list", "dict", "fstr", "binop", "enter", "record", "obj", "partial", "lambda", "set", "comp"):
                    return False
                # x is None decided by an earlier truthiness fact on x
                if (a, True) in s.facts:
                    return False
            if op == "Eq" and a == b and a[0] != "top":
                return True
            if op == "Is" and a == b and a[0] == "attr" and a[1][0] == "cls" and a[2].isupper() and self._is_enum(a[1][1]):
                return True  # the same member of one Enum
            if op in ("Eq", "Is") and a[0] == "attr" and b[0] == "attr" and a[1] == b[1] and a[1][0] == "cls" and a[2] != b[2] \
                    and a[2].isupper() and b[2].isupper() and self._is_enum(a[1][1]):
                return False  # two different members of one Enum
        if v[0] in ("tuple", "list") and all(x[0] != "star" for x in v[1]):
            return len(v[1]) > 0
        # truthiness of x decided by "x is None" fact
        if (("cmp", "Is", v, NONE), True) in s.facts:
            return False
        return None

    def _is_enum(self, fq: str) -> bool:
        try:
            ci = self.p.cls(fq)
        except AnalysisError:
            return False
        return any(isinstance(c, str) and c.startswith("enum.") for c in self.p.mro(ci))

    def _ev_slice(self, sl: ast.expr, st: State, out: Outcome):
        if isinstance(sl, ast.Slice):
            res = []
            parts = [sl.lower, sl.upper, sl.step]
            cur: List[Tuple[List[Value], State]] = [([], st)]
            for p_ in parts:
                nxt = []
                for vs, s in cur:
                    if p_ is None:
                        nxt.append((vs + [NONE], s))
                    else:
                        for v, s2 in self._ev(p_, s, out):
                            nxt.append((vs + [v], s2))
                cur = nxt
            for vs, s in cur:
                res.append((("slice",) + tuple(vs), s))
            return res
        return self._ev(sl, st, out)

    def eval(self, e: ast.expr, st: State) -> Tuple[List[Tuple[Value, State]], List[Tuple[str, State]]]:
        out = Outcome()
        self.tick()
        m = getattr(self, "e_" + type(e).__name__, None)
        if m is None:
            raise Undecided(f"expression kind {type(e).__name__} not supported at {self.where(e)}")
        vals = m(e, st, out)
        return vals, out.exc

    def _seq(self, exprs: Sequence[ast.expr], st: State, out: Outcome) -> List[Tuple[List[Value], State]]:
        cur: List[Tuple[List[Value], State]] = [([], st)]
        for x in exprs:
            nxt = []
            for vs, s in cur:
                if isinstance(x, ast.Starred):
                    for v, s2 in self._ev(x.value, s, out):
                        if v[0] in ("tuple", "list") and not any(y[0] == "star" for y in v[1]):
                            nxt.append((vs + list(v[1]), s2))  # *(a, b) is a, b
                        elif v[0] == "record":
                            nxt.append((vs + [y for _n, y in v[2]], s2))  # *NamedTuple(a, b) is a, b
                        else:
                            nxt.append((vs + [("star", v)], s2))
                else:
                    for v, s2 in self._ev(x, s, out):
                        nxt.append((vs + [v], s2))
            cur = nxt
        return cur

    def e_Constant(self, e, st, out):
        return [(const(e.value), st)]

    def e_Name(self, e: ast.Name, st: State, out):
        return [(self.lookup(e.id, st), st)]

    def lookup(self, name: str, st: State) -> Value:
        fr = self.frame
        k = self._name_key(name)
        if name in fr.cellvars and any(isinstance(v, tuple) and v and v[0] == "closure" for kk, v in st.env.items() if isinstance(kk, tuple) and kk[0] == "L" and kk[1] == fr.no):
            return ("cell", name)  # a closure that may rebind it already exists
        if k in st.env:
            return st.env[k]
        if name in fr.nonlocals:
            return ("cell", name)
        # free variable of a nested function analysed stand-alone
        if fr.fn.parent is not None:
            p: Optional[FuncInfo] = fr.fn.parent
            while p is not None:
                if name in _assigned_names(p.node) or name in [a for a in self._all_params(p)]:
                    return ("free", name)
                p = p.parent
        mod = fr.fn.module
        r = self.p.lookup_name(mod, name)
        if isinstance(r, FuncInfo):
            return ("func", r.fq)
        if isinstance(r, ClassInfo):
            return ("cls", r.fq)
        if isinstance(r, tuple):
            if r[0] == "const":
                lit = self._literal_global(r[1], name, r[2])
                return lit if lit is not None else ("global", f"{r[1].name}:{name}")
            if r[0] == "ext":
                if r[1] in _EXT_LITERALS:
                    return const(_EXT_LITERALS[r[1]])
                return ("ext", r[1])
            if r[0] == "module":
                return ("module", r[1])
        if name in ("True", "False", "None"):
            return const({"True": True, "False": False, "None": None}[name])
        if hasattr(builtins, name):
            return ("builtin", name)
        return ("free", name)

    def _literal_global(self, mod, name: str, expr) -> Optional[Value]:
        """A module-level constant whose defining expression is a plain literal (str / bytes / number / bool / None, or a
        tuple / frozenset / set of those) is the same thing as the literal written in place: moving a literal to a named
        module constant - or back - must not change what a rule sees. Anything computed (re.compile(...), comprehensions,
        dicts, calls) keeps its identity as ('global', name)."""
        cache = self.__dict__.setdefault("_litglob", {}) if hasattr(self, "__dict__") else {}
        key = (mod.name, name)
        if key in cache:
            return cache[key]
        out: Optional[Value] = None
        try:
            scal = (str, bytes, int, float, bool, type(None))

            def elem_term(e) -> Value:
                """an element of a module-level table: a literal, a nested tuple of such, or the name of a repository function"""
                if isinstance(e, (ast.Tuple, ast.List)):
                    return ("tuple", tuple(elem_term(x) for x in e.elts))
                if isinstance(e, ast.Name):
                    r_ = self.p.lookup_name(mod, e.id)
                    if isinstance(r_, FuncInfo):
                        return ("func", r_.fq)
                    if isinstance(r_, ClassInfo):
                        return ("cls", r_.fq)
                    if e.id in ("str", "bytes", "int", "len") and r_ is None:
                        return ("builtin", e.id)
                    raise ValueError
                return const(lit(e))

            def lit(e) -> Any:
                if isinstance(e, ast.Constant) and isinstance(e.value, scal):
                    return e.value
                if isinstance(e, ast.Attribute) and isinstance(e.value, ast.Name) and e.value.id == "os" and e.attr in ("pardir", "curdir"):
                    return {"pardir": "..", "curdir": "."}[e.attr]
                if isinstance(e, ast.BinOp) and isinstance(e.op, ast.Add):
                    a, b = lit(e.left), lit(e.right)
                    if type(a) is type(b) and isinstance(a, (str, bytes)):
                        return a + b
                raise ValueError
            if isinstance(expr, (ast.Tuple, ast.Set)) or (isinstance(expr, ast.Call) and isinstance(expr.func, ast.Name) and expr.func.id in ("frozenset", "tuple") and len(expr.args) == 1
                                                           and isinstance(expr.args[0], (ast.Tuple, ast.Set, ast.List)) and not expr.keywords):
                inner = expr if isinstance(expr, (ast.Tuple, ast.Set)) else expr.args[0]
                vals = tuple(elem_term(x) if isinstance(expr, ast.Tuple) else const(lit(x)) for x in inner.elts)
                is_set = isinstance(expr, ast.Set) or (isinstance(expr, ast.Call) and expr.func.id == "frozenset")
                out = ("set", vals) if is_set else ("tuple", vals)
            elif isinstance(expr, ast.Call) and self.p.resolve_dotted(mod, expr.func) == ("ext", "functools.partial") and expr.args \
                    and not any(isinstance(a, ast.Starred) for a in expr.args) and all(k.arg for k in expr.keywords):
                # NAME = functools.partial(<repository function>, <literals>...): the partial object written in place
                out = ("partial", elem_term(expr.args[0]), tuple(elem_term(a) for a in expr.args[1:]), tuple((k.arg, elem_term(k.value)) for k in expr.keywords))
                if out[1][0] != "func":
                    out = None
            else:
                out = const(lit(expr))
        except Exception:
            out = None
        cache[key] = out
        return out

    def e_Attribute(self, e: ast.Attribute, st: State, out):
        res = []
        for b, s in self._ev(e.value, st, out):
            res.append((self.attr(b, e.attr, s), s))
        return res

    def attr(self, b: Value, name: str, s: State) -> Value:
        hk = ("H", ("attr", b, name))
        if hk in s.env:
            return s.env[hk]
        if b[0] == "record":
            for n_, y in b[2]:
                if n_ == name:
                    return y
            if name == "_fields":
                return ("tuple", tuple(const(n_) for n_, _y in b[2]))
            return ("attr", b, name)
        if b == ("param", "self") and name.startswith("_") and not name.startswith("__") and self.frames and self.frames[0].self_cls is not None:
            # a PRIVATE class-level constant of the receiver class that no method ever rebinds on the instance
            # (`_routed_key = "SCRIPT_NAME"`, `_response_class = Response`): reading it through self is reading that constant -
            # the hook values of a template method pulled up into a base class
            v_ = self._class_constant(self.frames[0].self_cls, name)
            if v_ is not None:
                return v_
        if b[0] == "attr" and b[1][0] == "cls" and name in ("value", "name", "_value_", "_name_") and b[2].isupper() and self._is_enum(b[1][1]):
            # <Enum>.MEMBER.value / .name of a repository enum whose member is assigned a literal in the class body
            try:
                ci_e = self.p.cls(b[1][1])
                ex_ = ci_e.attrs.get(b[2])
            except Exception:
                ex_ = None
            if name in ("name", "_name_") and ex_ is not None:
                return const(b[2])
            if isinstance(ex_, ast.Constant):
                return const(ex_.value)
        if b[0] == "obj":
            # a class-level literal of the object's class (`chunk = 4096` in the class body)
            try:
                ci_ = self.p.cls(b[1])
                r_ = self.p.find_class_attr(ci_, name)
            except Exception:
                r_ = None
            if r_ is not None and isinstance(r_[1], ast.Constant):
                return const(r_[1].value)
            return ("attr", b, name)
        if b[0] == "module":
            full = f"{b[1]}.{name}"
            if full in self.p.modules:
                return ("module", full)
            r = self.p.lookup_name(self.p.modules[b[1]], name)
            if isinstance(r, FuncInfo):
                return ("func", r.fq)
            if isinstance(r, ClassInfo):
                return ("cls", r.fq)
            if isinstance(r, tuple) and r[0] == "const":
                lit = self._literal_global(r[1], name, r[2])
                return lit if lit is not None else ("global", f"{r[1].name}:{name}")
            if isinstance(r, tuple) and r[0] == "ext":
                return ("ext", r[1])
        if b[0] == "ext":
            if f"{b[1]}.{name}" in _EXT_LITERALS:
                return const(_EXT_LITERALS[f"{b[1]}.{name}"])
            return ("ext", f"{b[1]}.{name}")
        if b[0] == "cls":
            try:
                ci = self.p.cls(b[1])
            except AnalysisError:
                ci = None
            if ci is not None:
                m = self.p.find_method(ci, name)
                if m is not None:
                    return ("func", m.fq)
        return ("attr", b, name)

    def e_Subscript(self, e: ast.Subscript, st: State, out):
        res = []
        for b, s in self._ev(e.value, st, out):
            for i, s2 in self._ev_slice(e.slice, s, out):
                hk = ("H", ("sub", b, i))
                if hk in s2.env:
                    res.append((s2.env[hk], s2))
                elif b[0] == "record" and i[0] == "const" and isinstance(i[1], int) and -len(b[2]) <= i[1] < len(b[2]):
                    res.append((b[2][i[1]][1], s2))
                elif b[0] in ("tuple", "list") and i[0] == "const" and isinstance(i[1], int) and not isinstance(i[1], bool) and -len(b[1]) <= i[1] < len(b[1]) and not any(y[0] == "star" for y in b[1]):
                    res.append((b[1][i[1]], s2))
                elif b[0] == "dict" and i[0] == "const" and all(k is not None and k[0] == "const" for k, _ in b[1]) and any(k == i for k, _ in b[1]):
                    res.append(([v for k, v in b[1] if k == i][-1], s2))
                elif isinstance(e.ctx, ast.Load) and b[0] in ("tuple", "list") and i[0] != "const" and i[0] != "slice" and 2 <= len(b[1]) <= 4 and not any(y[0] == "star" for y in b[1]) \
                        and all(y[0] in ("func", "cls", "tuple", "lambda", "partial", "closure") for y in b[1]):
                    # a small literal table of functions (or rows of functions) indexed by a run-time value - `_RENDERERS[bool(as_bytes)]`:
                    # SOME row is selected; every row is followed on a path of its own that remembers which one
                    for k_, row in enumerate(b[1]):
                        res.append((row, s2.with_fact(("cmp", "Eq", i, ("const", k_)), True)))
                elif isinstance(e.ctx, ast.Load) and i[0] == "const" and self._eafp_lookup(e):
                    # EAFP: `try: v = m[K] except KeyError: A else: B` is `if K in m: v = m[K]; B else: A` - the lookup forks on membership
                    memb = ("cmp", "In", i, b)
                    t_ = self.truth(memb, s2)
                    if t_ is not True:
                        out.exc.append(("KeyError", s2.with_fact(memb, False)))
                    if t_ is not False:
                        res.append((("sub", b, i), s2.with_fact(memb, True)))
                else:
                    for ex in self.client.call_raises(self, ("getitem", b, i), e, s2):
                        out.exc.append((ex, s2))
                    res.append((("sub", b, i), s2))
        return res

    def _class_constant(self, ci: ClassInfo, name: str) -> Optional[Value]:
        cache = self.__dict__.setdefault("_clsconst", {})
        key = (ci.fq, name)
        if key in cache:
            return cache[key]
        out: Optional[Value] = None
        try:
            r_ = self.p.find_class_attr(ci, name)
            if r_ is not None:
                owner, expr = r_
                family = [c for c in self.p.mro(ci) if isinstance(c, ClassInfo)] + self.p.subclasses(ci)
                rebound = any(isinstance(t, ast.Attribute) and t.attr == name and isinstance(t.ctx, (ast.Store, ast.Del)) for c in family for m in dict.values(c.methods) for t in ast.walk(m.node))
                if not rebound:
                    if isinstance(expr, ast.Constant) and isinstance(expr.value, (str, bytes, int, bool)):
                        out = const(expr.value)
                    elif isinstance(expr, ast.Name):
                        tgt = self.p.lookup_name(owner.module, expr.id)
                        if isinstance(tgt, ClassInfo):
                            out = ("cls", tgt.fq)
        except Exception:
            out = None
        cache[key] = out
        return out

    def _singleton_class(self, v: Value) -> Optional[str]:
        """fq of the repository class C when v is ('global', 'mod:NAME') and the module defines NAME = C() (no arguments)"""
        if not (isinstance(v, tuple) and len(v) == 2 and v[0] == "global" and isinstance(v[1], str) and ":" in v[1]):
            return None
        mname, name = v[1].split(":", 1)
        try:
            mod_ = self.p.module(mname)
            d = mod_.constants.get(name)
            if isinstance(d, ast.Call) and isinstance(d.func, ast.Name) and not d.args and not d.keywords:
                r_ = self.p.lookup_name(mod_, d.func.id)
                if isinstance(r_, ClassInfo):
                    return r_.fq
        except Exception:
            return None
        return None

    def _is_sentinel(self, v: Value) -> bool:
        """('global', 'mod:NAME') whose module-level definition is `NAME = object()`"""
        if not (isinstance(v, tuple) and len(v) == 2 and v[0] == "global" and isinstance(v[1], str) and ":" in v[1]):
            return False
        mname, name = v[1].split(":", 1)
        try:
            d = self.p.module(mname).constants.get(name)
        except Exception:
            return False
        return isinstance(d, ast.Call) and isinstance(d.func, ast.Name) and d.func.id == "object" and not d.args and not d.keywords

    def _eafp_lookup(self, e: ast.AST) -> bool:
        """is this subscript evaluated in the body of a `try` that has an `except KeyError` / `except LookupError` handler?"""
        child = e
        q = getattr(e, "_parent", None)
        while q is not None and not isinstance(q, (ast.FunctionDef, ast.AsyncFunctionDef, ast.Lambda, ast.ClassDef)):
            if isinstance(q, ast.Try) and any(child is st_ for st_ in q.body):
                for h in q.handlers:
                    names = [h.type] if h.type is not None and not isinstance(h.type, ast.Tuple) else (list(h.type.elts) if h.type is not None else [])
                    if any(ast.unparse(n_).split(".")[-1] in ("KeyError", "LookupError") for n_ in names):
                        return True
            child = q
            q = getattr(q, "_parent", None)
        return False

    def e_Tuple(self, e, st, out):
        return [(("tuple", tuple(vs)), s) for vs, s in self._seq(e.elts, st, out)]

    def e_List(self, e, st, out):
        return [(("list", tuple(vs)), s) for vs, s in self._seq(e.elts, st, out)]

    def e_Set(self, e, st, out):
        return [(("set", tuple(vs)), s) for vs, s in self._seq(e.elts, st, out)]

    def e_Dict(self, e: ast.Dict, st, out):
        exprs = []
        for k, v in zip(e.keys, e.values):
            if k is not None:
                exprs.append(k)
            exprs.append(v)
        res = []
        for vs, s in self._seq(exprs, st, out):
            items = []
            i = 0
            for k in e.keys:
                if k is None:
                    sp = vs[i]
                    if sp[0] == "dict" and all(k_ is not None and k_[0] == "const" for k_, _v in sp[1]):
                        # **{known constant keys}: the display is the merged display (a later key replaces an earlier one in place)
                        for k_, v_ in sp[1]:
                            items = [(a, b) for a, b in items if a != k_] + [(k_, v_)] if any(a == k_ for a, _b in items) else items + [(k_, v_)]
                    else:
                        items.append((None, sp))
                    i += 1
                else:
                    items.append((vs[i], vs[i + 1]))
                    i += 2
            res.append((("dict", tuple(items)), s))
        return res

    def e_JoinedStr(self, e: ast.JoinedStr, st, out):
        exprs = [v.value if isinstance(v, ast.FormattedValue) else v for v in e.values]
        res = []
        for vs, s in self._seq(exprs, st, out):
            parts = []
            for node_v, v in zip(e.values, vs):
                if isinstance(node_v, ast.FormattedValue) and (node_v.conversion != -1 or node_v.format_spec is not None):
                    conv = {114: "r", 115: "s", 97: "a"}.get(node_v.conversion, "")
                    v = ("fmt", v, conv, ast.unparse(node_v.format_spec) if node_v.format_spec else "")
                if v[0] == "const" and isinstance(v[1], str) and parts and parts[-1][0] == "const" and isinstance(parts[-1][1], str):
                    parts[-1] = ("const", parts[-1][1] + v[1])  # a constant spliced into the text is part of the text
                else:
                    parts.append(v)
            res.append((("fstr", tuple(parts)) if not (len(parts) == 1 and parts[0][0] == "const") else parts[0], s))
        return res

    def e_FormattedValue(self, e, st, out):
        return self._ev(e.value, st, out)

    def e_BinOp(self, e: ast.BinOp, st, out):
        res = []
        for vs, s in self._seq([e.left, e.right], st, out):
            a, b = vs
            op = type(e.op).__name__
            if a[0] == "const" and b[0] == "const" and isinstance(a[1], (int, str, bytes)) and type(a[1]) == type(b[1]) and op in ("Add", "Sub", "Mult"):
                try:
                    r = {"Add": lambda x, y: x + y, "Sub": lambda x, y: x - y, "Mult": lambda x, y: x * y}[op](a[1], b[1])
                    res.append((const(r), s))
                    continue
                except Exception:
                    pass
            res.append((text_term(("binop", op, a, b)), s))
        return res

    def e_UnaryOp(self, e: ast.UnaryOp, st, out):
        res = []
        for v, s in self._ev(e.operand, st, out):
            if isinstance(e.op, ast.Not):
                if v[0] == "const":
                    res.append((const(not v[1]), s))
                elif v[0] == "not":
                    res.append((v[1] if is_boolish(v[1]) else ("not", v), s))
                else:
                    res.append((("not", v), s))
            elif isinstance(e.op, ast.USub) and v[0] == "const" and isinstance(v[1], (int, float)):
                res.append((const(-v[1]), s))
            else:
                res.append((("unop", type(e.op).__name__, v), s))
        return res

    def e_BoolOp(self, e: ast.BoolOp, st, out):
        # value-level: keep symbolic unless decided; path-splitting happens in branch()
        is_and = isinstance(e.op, ast.And)
        cur: List[Tuple[List[Value], State]] = [([], st)]
        res = []
        for i, sub in enumerate(e.values):
            last = i == len(e.values) - 1
            nxt = []
            for vs, s in cur:
                for v, s2 in self._ev(sub, s, out):
                    t = self.truth(v, s2)
                    if last:
                        res.append((self._mk_bool(is_and, vs + [v]), s2))
                    elif t is None:
                        nxt.append((vs + [v], s2))
                    elif t == is_and:
                        nxt.append((vs, s2))  # neutral element, continue
                    else:
                        res.append((self._mk_bool(is_and, vs + [v]), s2))  # short circuit
            cur = nxt
        return res

    def _mk_bool(self, is_and: bool, vs: List[Value]) -> Value:
        if len(vs) == 1:
            return vs[0]
        return ("and" if is_and else "or", tuple(vs))

    def e_Compare(self, e: ast.Compare, st, out):
        exprs = [e.left] + list(e.comparators)
        res = []
        for vs, s in self._seq(exprs, st, out):
            parts = []
            for i, op in enumerate(e.ops):
                parts.append(self._cmp(type(op).__name__, vs[i], vs[i + 1]))
            v = parts[0] if len(parts) == 1 else ("and", tuple(parts))
            res.append((v, s))
        return res

    def _cmp(self, op: str, a: Value, b: Value) -> Value:
        if op == "IsNot":
            return ("not", ("cmp", "Is", a, b))
        if op == "NotEq":
            return ("not", ("cmp", "Eq", a, b))
        if op == "NotIn":
            return ("not", ("cmp", "In", a, b))
        if op == "Eq" and a[0] == "const" and b[0] != "const":
            a, b = b, a
        if a[0] == "const" and b[0] == "const":
            # both sides literal (a local still holding its initial None / 0 / ""): the comparison is its value
            singletons = (None, True, False)
            if op == "Is" and (any(a[1] is x_ for x_ in singletons) or any(b[1] is x_ for x_ in singletons)):
                return const(a[1] is b[1])
            if op == "Eq" and type(a[1]) is type(b[1]) and isinstance(a[1], (str, bytes, int, bool, type(None))):
                return const(a[1] == b[1])
        return ("cmp", op, a, b)

    def e_IfExp(self, e: ast.IfExp, st, out):
        if getattr(self, "_in_comp", 0):
            # inside a comprehension element keep the conditional as one value (no path split)
            t = self._ev(e.test, st, out)[0][0]
            a = self._ev(e.body, st, out)[0][0]
            b = self._ev(e.orelse, st, out)[0][0]
            return [(("ifexp", t, a, b), st)]
        res = []
        for truth, s in self.branch(e.test, st, out):
            res.extend(self._ev(e.body if truth else e.orelse, s, out))
        return res

    def e_Lambda(self, e: ast.Lambda, st, out):
        captured = []
        for nm in sorted(_free_names(e)):
            k = self._name_key(nm)
            if k in st.env:
                captured.append((nm, st.env[k]))
        if not hasattr(self, "_lambda_nodes"):
            self._lambda_nodes = {}
        self._lambda_nodes[self.tag(e)] = (e, self.frame.fn)
        return [(("lambda", self.tag(e), tuple(captured)), st)]

    def _lambda_function(self, tag: int) -> Optional[FuncInfo]:
        """`lambda a, b: expr` as the nested function `def _lambda(a, b): return expr` of the function that wrote it (the same
        thing: parameters, defaults evaluated at definition, free names looked up in the defining scope)."""
        got = getattr(self, "_lambda_nodes", {}).get(tag)
        if got is None:
            return None
        node, owner = got
        cache = self.__dict__.setdefault("_lambda_funcs", {})
        if tag not in cache:
            if any(isinstance(n, (ast.Yield, ast.YieldFrom, ast.Await)) for n in ast.walk(node.body)):
                cache[tag] = None
            else:
                ret = ast.copy_location(ast.Return(value=node.body), node)
                fd = ast.copy_location(ast.FunctionDef(name="_lambda", args=node.args, body=[ret], decorator_list=[], returns=None, type_comment=None), node)
                ast.fix_missing_locations(fd)
                cache[tag] = FuncInfo("_lambda", f"{owner.qualname}.<lambda#{tag}>", owner.module, fd, owner.cls, owner)
        return cache[tag]

    def e_Await(self, e: ast.Await, st, out):
        res = []
        for v, s in self._ev(e.value, st, out):
            for ex in self.client.await_raises(self, e):
                out.exc.append((ex, s))
            res.append((v, self.client.after_await(self, e, s)))
        return res

    def e_Yield(self, e: ast.Yield, st, out):
        res = []
        vals = self._ev(e.value, st, out) if e.value is not None else [(NONE, st)]
        for v, s in vals:
            s2 = self.client.on_yield(self, v, e, s)
            for ex in self.client.yield_raises(self, e):
                out.exc.append((ex, s2))
            res.append((("yieldval", self.tag(e)), s2))
        return res

    def e_YieldFrom(self, e: ast.YieldFrom, st, out):
        res = []
        for v, s in self._ev(e.value, st, out):
            if v[0] == "gen":
                fi = self.p.func(v[1])
                if self.client.want_inline(fi, self, e) and len(self.frames) <= self.client.max_inline_depth:
                    for rv, s2 in self.inline_call(fi, v, s, out, e):
                        res.append((rv, s2))
                    continue
            s2 = self.client.on_yield_from(self, v, e, s)
            for ex in self.client.yield_raises(self, e) + self.client.call_raises(self, ("next", v), e, s2):
                out.exc.append((ex, s2))
            res.append((("yieldval", self.tag(e)), s2))
        return res

    def e_Starred(self, e, st, out):
        return [(("star", v), s) for v, s in self._ev(e.value, st, out)]

    def e_NamedExpr(self, e: ast.NamedExpr, st, out):
        res = []
        for v, s in self._ev(e.value, st, out):
            for s2 in self.assign(e.target, v, s, out, e):
                res.append((v, s2))
        return res

    def _comp(self, e, kind: str, st: State, out: Outcome):
        if len(e.generators) != 1:
            # nested generators: keep opaque but still evaluate the first iterable
            vals = self._ev(e.generators[0].iter, st, out)
            return [(("comp", kind, ("top", self.tag(e)), v, ()), s) for v, s in vals]
        g = e.generators[0]
        res = []
        for itv, s in self._ev(g.iter, st, out):
            elem = ("elem", itv)
            # bind targets in a scratch copy of the state (comprehension scope)
            tmp = Outcome()
            self._in_comp = getattr(self, "_in_comp", 0) + 1
            try:
                res.append(self._comp_one(e, kind, g, itv, elem, s, tmp, out))
            finally:
                self._in_comp -= 1
        return res

    def _comp_one(self, e, kind, g, itv, elem, s, tmp, out):
        if True:
            inner_states = self.assign(g.target, elem, s, tmp, e)
            s_in = inner_states[0]
            conds = []
            for c in g.ifs:
                cv = self._ev(c, s_in, tmp)
                conds.append(cv[0][0])
            if isinstance(e, ast.DictComp):
                kv = self._ev(e.key, s_in, tmp)[0][0]
                vv = self._ev(e.value, s_in, tmp)[0][0]
                elt = ("tuple", (kv, vv))
            else:
                elt = self._ev(e.elt, s_in, tmp)[0][0]
            out.exc.extend((ex, s) for ex, _ in tmp.exc)
            return (("comp", kind, elt, itv, tuple(conds)), s)

    def e_ListComp(self, e, st, out):
        return self._comp(e, "list", st, out)

    def e_SetComp(self, e, st, out):
        return self._comp(e, "set", st, out)

    def e_GeneratorExp(self, e, st, out):
        return self._comp(e, "gen", st, out)

    def e_DictComp(self, e, st, out):
        return self._comp(e, "dict", st, out)

    def e_Slice(self, e, st, out):
        return self._ev_slice(e, st, out)

    # ---------------------------------------------------------------- calls
    def e_Call(self, e: ast.Call, st: State, out: Outcome):
        res = []
        fr = self.frame
        # any(<elt> for x in <literal table of constants>) / all(...) is the or / and chain of its instances (each one a fact of its own)
        if isinstance(e.func, ast.Name) and e.func.id in ("any", "all") and len(e.args) == 1 and not e.keywords and isinstance(e.args[0], ast.GeneratorExp) \
                and len(e.args[0].generators) == 1 and not e.args[0].generators[0].ifs and not e.args[0].generators[0].is_async \
                and isinstance(e.args[0].generators[0].target, ast.Name) and self._name_key(e.func.id) not in st.env:
            g0 = e.args[0].generators[0]
            consts = None
            for itv_, _s in self._ev(g0.iter, st, Outcome()):
                if itv_[0] in ("tuple", "list") and 1 <= len(itv_[1]) <= 8 and all(x[0] == "const" for x in itv_[1]):
                    consts = [x[1] for x in itv_[1]]
                break
            if consts is not None:
                import copy as _copy
                var = g0.target.id

                class _Sub(ast.NodeTransformer):
                    def __init__(s2, val):
                        s2.val = val

                    def visit_Name(s2, n):
                        if n.id == var and isinstance(n.ctx, ast.Load):
                            return ast.copy_location(ast.Constant(value=s2.val), n)
                        return n
                insts = [_Sub(c_).visit(_copy.deepcopy(e.args[0].elt)) for c_ in consts]
                chain = ast.copy_location(ast.BoolOp(op=ast.Or() if e.func.id == "any" else ast.And(), values=insts), e) if len(insts) > 1 else insts[0]
                ast.fix_missing_locations(chain)
                for n_ in ast.walk(chain):
                    if not hasattr(n_, "_parent"):
                        n_._parent = getattr(e, "_parent", None)  # type: ignore[attr-defined]
                return self._ev(chain, st, out)
        # static resolution first
        target = None
        callee_vals: List[Tuple[Value, State, Any]] = []
        f = e.func
        static = None
        if isinstance(f, ast.Name) and self._name_key(f.id) not in st.env:
            static = self.p.resolve_callee(fr.fn, f, fr.self_cls)
            if isinstance(static, tuple) and static[0] == "builtin" and not hasattr(builtins, static[1]):
                static = None
        elif isinstance(f, ast.Attribute):
            v = f.value
            is_self = isinstance(v, ast.Name) and v.id in ("self", "cls") and self._name_key(v.id) in st.env and st.env[self._name_key(v.id)] in (("param", "self"), ("param", "cls"))
            # `self` of the enclosing method, seen from a nested function that is analysed on its own
            free_self = (not is_self and isinstance(v, ast.Name) and v.id in ("self", "cls") and self._name_key(v.id) not in st.env and fr.fn.parent is not None
                         and v.id not in fr.fn.params and self.lookup(v.id, st) == ("free", v.id))
            is_super = isinstance(v, ast.Call) and isinstance(v.func, ast.Name) and v.func.id == "super"
            if is_self or is_super or free_self:
                static = self.p.resolve_callee(fr.fn, f, fr.self_cls)
                if isinstance(static, tuple) and static[0] == "method":
                    static = None
        if isinstance(static, FuncInfo):
            recv = None
            if isinstance(f, ast.Attribute):
                recv = self.lookup("self", st) if ("L", fr.no, "self") in st.env else (self.lookup("cls", st) if ("L", fr.no, "cls") in st.env else ("param", "self"))
                if isinstance(f.value, ast.Name) and self._name_key(f.value.id) not in st.env and self.lookup(f.value.id, st) == ("free", f.value.id):
                    recv = ("free", f.value.id)
            callee_vals.append((("func", static.fq), st, (static, recv)))
        elif isinstance(static, ClassInfo):
            callee_vals.append((("cls", static.fq), st, None))
        elif isinstance(static, tuple) and static[0] in ("ext", "builtin"):
            callee_vals.append((static, st, None))
        else:
            for cv, s in self._ev(f, st, out):
                callee_vals.append((cv, s, None))
        # x.append(v) on a local that holds a list display keeps the display up to date (candidates = [a]; candidates.append(b))
        if isinstance(f, ast.Attribute) and f.attr in ("append",) and isinstance(f.value, ast.Name) and len(e.args) == 1 and not e.keywords and not isinstance(e.args[0], ast.Starred):
            key_ = self._name_key(f.value.id)
            cur_ = st.env.get(key_)
            if isinstance(cur_, tuple) and cur_ and cur_[0] == "list" and len(cur_[1]) < 8 and f.value.id not in fr.cellvars:
                res_ = []
                for v_, s_ in self._ev(e.args[0], st, out):
                    s2_ = self.call(("attr", cur_, "append"), (v_,), (), e, s_, out, None)[0][1]
                    res_.append((NONE, s2_.set(key_, ("list", cur_[1] + (v_,)))))
                return res_
        # any other in-place change of a display held by a local (extend, insert, update, pop, ...): its contents are no longer
        # the literal's - the local becomes an opaque "mutated container" (a test of its length / truth is undecided)
        mut_key = None
        if isinstance(f, ast.Attribute) and f.attr in _CONTAINER_MUTATORS and isinstance(f.value, ast.Name):
            k_ = self._name_key(f.value.id)
            c_ = st.env.get(k_)
            if isinstance(c_, tuple) and c_ and c_[0] in ("list", "dict", "set"):
                mut_key = (k_, c_)
        for cv, s, meta in callee_vals:
            for vs, s2 in self._seq(e.args, s, out):
                kw_exprs = [k.value for k in e.keywords]
                for kvs, s3 in self._seq(kw_exprs, s2, out):
                    kwargs = tuple((k.arg or "**", v) for k, v in zip(e.keywords, kvs))
                    got = self.call(cv, tuple(vs), kwargs, e, s3, out, meta)
                    if mut_key is not None:
                        got = [(v_, s_.set(mut_key[0], ("mut", mut_key[1], self.tag(e)))) for v_, s_ in got]
                    res.extend(got)
        return res

    def call(self, cv: Value, args: Tuple[Value, ...], kwargs, node: ast.Call, st: State, out: Outcome, meta=None):
        self.tick()
        hooked = self.client.on_call(self, cv, args, kwargs, node, st)
        if hooked is not None:
            return hooked
        fi: Optional[FuncInfo] = None
        recv: Optional[Value] = None
        captured: Tuple[Tuple[str, Value], ...] = ()
        if meta is not None:
            fi, recv = meta
        elif cv[0] == "func":
            fi = self.p.func(cv[1])
        elif cv[0] == "closure":
            fi = self.p.func(cv[1])
            captured = cv[2]
        elif cv[0] == "lambda" and self._lambda_function(cv[1]) is not None:
            fi = self._lambda_function(cv[1])
            captured = cv[2]
        elif cv[0] == "attr" and cv[1][0] in ("param",) and cv[1][1] in ("self", "cls"):
            # a bound method that travelled as a value (functools.partial(self._m, x), h = self._m; h()): the method of the
            # receiver class of the analysis, as `self._m(...)` written in place would be
            try:
                m_ = self.p.find_method(self.frames[0].self_cls, cv[2]) if self.frames[0].self_cls is not None else None
            except Exception:
                m_ = None
            if isinstance(m_, FuncInfo) and not any(d in ("property", "cached_property") for d in m_.decorators):
                fi = m_
                recv = None if "staticmethod" in m_.decorators else cv[1]
                cv = ("func", m_.fq)
        # ---- value objects of the repository (see _construct): methods on them, calling them, functools.partial
        if meta is None and cv[0] == "attr" and cv[1][0] in ("obj", "record"):
            special = self._record_method(cv[1], cv[2], args, kwargs) if cv[1][0] == "record" else None
            if special is not None:
                return [(special, st)]
            try:
                m_ = self.p.find_method(self.p.cls(cv[1][1]), cv[2])
            except Exception:
                m_ = None
            if m_ is not None:
                if "staticmethod" in m_.decorators:
                    fi, recv = m_, None
                else:
                    fi, recv = m_, cv[1]
                cv = ("func", m_.fq)
        elif meta is None and cv[0] == "attr" and cv[1][0] == "attr" and cv[1][1][0] == "cls" and cv[1][2].isupper() and self._is_enum(cv[1][1][1]):
            try:
                m_ = self.p.find_method(self.p.cls(cv[1][1][1]), cv[2])
            except Exception:
                m_ = None
            if m_ is not None and not any(d in ("staticmethod", "classmethod", "property") for d in m_.decorators):
                fi, recv = m_, cv[1]
                cv = ("func", m_.fq)
        elif meta is None and cv[0] == "attr" and cv[1][0] == "global" and self._singleton_class(cv[1]) is not None:
            # a method of a module-level singleton `NAME = _PrivateClass()`
            try:
                sc_ = self.p.cls(self._singleton_class(cv[1]))
                m_ = self.p.find_method(sc_, cv[2]) if sc_.name.startswith("_") else None
            except Exception:
                m_ = None
            if m_ is not None and not any(d in ("property", "classmethod") for d in m_.decorators):
                fi, recv = m_, (None if "staticmethod" in m_.decorators else cv[1])
                cv = ("func", m_.fq)
        elif meta is None and cv[0] == "obj":
            try:
                m_ = self.p.find_method(self.p.cls(cv[1]), "__call__")
            except Exception:
                m_ = None
            if m_ is not None:
                fi, recv = m_, cv
                cv = ("func", m_.fq)
        elif meta is None and cv[0] == "attr" and cv[1][0] == "gen" and cv[2] in ("send", "throw"):
            # a coroutine-style generator driven by hand (`plan.send(len(data))`): where it is suspended and what it answers is
            # not modelled - a path analysis that meets it has no verdict
            raise Undecided(f"a generator is driven with .{cv[2]}() ({show(cv[1])[:50]}): coroutine-style generators are not modelled")
        elif cv in (("ext", "contextlib.ExitStack"), ("ext", "contextlib.AsyncExitStack")) and not args and not kwargs:
            return [(("call", cv, (), (), self.tag(node)), st)]  # creating an empty callback stack does nothing (and does not raise)
        elif meta is None and cv[0] == "attr" and cv[1][0] == "exitstack":
            key = ("H", ("stack", cv[1]))
            cur_ = st.env.get(key, ("tuple", ()))
            if cur_[0] != "tuple" or any(a[0] == "star" for a in args) or any(k == "**" for k, _ in kwargs):
                raise Undecided("ExitStack used in a way the engine does not model")
            if cv[2] in ("callback", "push_async_callback") and args:
                return [(args[0], st.set(key, ("tuple", cur_[1] + (("partial", args[0], tuple(args[1:]), tuple(kwargs)),))))]
            if cv[2] in ("enter_context", "enter_async_context") and len(args) == 1 and not kwargs:
                cm_ = args[0]
                st_ = st.set(key, ("tuple", cur_[1] + (("exitof", cm_),)))
                if cm_[0] == "obj":
                    en_ = "__aenter__" if cv[2] == "enter_async_context" else "__enter__"
                    return self.call(("attr", cm_, en_), (), (), node, st_, out, None)
                return [(("enter", cm_), st_)]
            raise Undecided(f"ExitStack.{cv[2]} is not modelled")
        elif meta is None and cv[0] == "partial":
            return self.call(cv[1], tuple(cv[2]) + tuple(args), tuple(cv[3]) + tuple(kwargs), node, st, out, None)
        elif cv == ("ext", "functools.partial") and args and not any(a[0] == "star" for a in args) and not any(k == "**" for k, _ in kwargs):
            return [(("partial", args[0], tuple(args[1:]), tuple(kwargs)), st)]
        elif cv == ("builtin", "map") and len(args) == 2 and not kwargs and args[0][0] in ("func", "closure", "builtin", "ext", "attr", "lambda"):
            # map(f, xs) is the generator (f(x) for x in xs): same comprehension term, f applied to the element
            fn_v = args[0]
            if fn_v[0] == "attr" and fn_v[1] in (("builtin", "str"), ("builtin", "bytes")):
                elt_res = [(("call", ("attr", ("elem", args[1]), fn_v[2]), (), (), self.tag(node)), st)]  # map(str.strip, xs) -> x.strip()
            elif fn_v[0] == "lambda":
                elt_res = []
            else:
                sub_out = Outcome()
                elt_res = self.call(fn_v, (("elem", args[1]),), (), node, st, sub_out, None)
                if sub_out.exc:
                    elt_res = []
            if len(elt_res) == 1:
                return [(("comp", "gen", elt_res[0][0], args[1], ()), elt_res[0][1])]
            if len(elt_res) > 1:
                # the element function has several paths (an `if` inside a helper): the element is one of their values
                vals_ = []
                for v_, s_ in elt_res:
                    learnt = tuple(sorted((f_ for f_ in (s_.facts - st.facts)), key=repr))
                    alt = ("when", tuple(("not", f_[0]) if not f_[1] else f_[0] for f_ in learnt), v_) if learnt else v_
                    if alt not in vals_:
                        vals_.append(alt)
                return [(("comp", "gen", vals_[0] if len(vals_) == 1 else ("phi", tuple(vals_)), args[1], ()), st)]
        if meta is None and cv[0] == "attr" and cv[2] == "update" and not args and kwargs and all(k_ != "**" for k_, _v in kwargs) and cv[1][0] in ("param", "local", "attr"):
            # m.update(K=v, ...) stores every keyword like m["K"] = v does, in keyword order
            st_ = st
            for k_, v_ in kwargs:
                key = ("sub", cv[1], ("const", k_))
                st_ = self.client.on_store(self, key, v_, node, st_)
                st_ = st_.set(("H", key), v_)
            return [(NONE, st_)]
        if meta is None and cv[0] == "attr" and cv[2] == "update" and len(args) == 1 and not kwargs and args[0][0] == "dict" and args[0][1] \
                and all(k_ is not None and k_[0] == "const" for k_, _v in args[0][1]):
            # m.update({"k": v, ...}) stores every item like m["k"] = v does (MutableMapping.update goes through __setitem__)
            st_ = st
            for k_, v_ in args[0][1]:
                key = ("sub", cv[1], k_)
                st_ = self.client.on_store(self, key, v_, node, st_)
                st_ = st_.set(("H", key), v_)
            return [(NONE, st_)]
        elif cv == ("ext", "typing.cast") and len(args) == 2 and not kwargs:
            return [(args[1], st)]  # typing.cast(T, x) is x
        elif cv == ("ext", "operator.setitem") and len(args) == 3 and not kwargs:
            key = ("sub", args[0], args[1])
            st_ = self.client.on_store(self, key, args[2], node, st)
            return [(NONE, st_.set(("H", key), args[2]))]
        elif cv[0] == "cls" and meta is None:
            built = self._construct(cv, args, kwargs, node, st, out)
            if built is not None:
                return built
        if fi is not None:
            self.resolved_calls += 1
        else:
            self.unresolved_calls += 1
        call_v = ("call", cv, args, kwargs, self.tag(node))
        if cv[0] == "attr" and cv[2] == "format" and cv[1][0] == "const":
            call_v = text_term(call_v)
        if fi is not None and (fi.is_generator()):
            gv = ("gen", fi.fq, args, kwargs, recv, captured)
            return [(gv, st)]
        if fi is not None and fi.is_async and _spawned_not_awaited(node):
            # `ensure_future(self.watch(receive))` / `create_task(coro())`: calling an `async def` only creates the coroutine object;
            # handed to a spawner it runs as ANOTHER task, concurrently - its body is not part of this path
            return [(("coro", fi.fq, self.tag(node)), st)]
        if fi is not None and len(self.frames) <= self.client.max_inline_depth and self.client.want_inline(fi, self, node):
            gv = ("gen", fi.fq, args, kwargs, recv, captured)
            return self.inline_call(fi, gv, st, out, node)
        res = []
        for st1 in self.client.pre_call_states(self, cv, args, kwargs, node, st):
            for ex in self.client.call_raises(self, cv, node, st1):
                out.exc.append((ex, st1))
            st2 = self.client.after_call(self, cv, args, kwargs, node, st1)
            res.append((call_v, st2))
        return res

    def _class_kind(self, ci: ClassInfo) -> Optional[str]:
        """'record' for a NamedTuple class of the repository; 'object' for a private class (`_Name`) that is a plain holder of
        state with methods (own __init__ or none, no metaclass, bases only object / Generic); None otherwise."""
        bases = [ast.unparse(b) for b in ci.base_exprs]
        if any(b.split(".")[-1] == "NamedTuple" for b in bases):
            return "record"
        # a private FROZEN dataclass without __post_init__ / custom __init__ is the same thing: fields fixed at construction
        if ci.name.startswith("_") and not ci.name.startswith("__") and len(ci.node.decorator_list) == 1 and all(b in ("object",) for b in bases) \
                and "__init__" not in dict.keys(ci.methods) and "__post_init__" not in dict.keys(ci.methods) and "__new__" not in dict.keys(ci.methods):
            d = ci.node.decorator_list[0]
            if isinstance(d, ast.Call) and ast.unparse(d.func).split(".")[-1] == "dataclass" and any(k.arg == "frozen" and isinstance(k.value, ast.Constant) and k.value.value is True for k in d.keywords) \
                    and not any(k.arg in ("init",) for k in d.keywords):
                return "record"
        if ci.name.startswith("_") and not ci.name.startswith("__") and not getattr(ci.node, "keywords", None) and not ci.node.decorator_list \
                and all(b in ("object",) or b.startswith("Generic[") or b.startswith("typing.Generic[") for b in bases):
            return "object"
        # a private plain (mutable) dataclass: a holder object whose synthesised __init__ stores the arguments / defaults in its fields
        if ci.name.startswith("_") and not ci.name.startswith("__") and not getattr(ci.node, "keywords", None) and len(ci.node.decorator_list) == 1 \
                and all(b in ("object",) for b in bases) and not ({"__init__", "__post_init__", "__new__", "__setattr__"} & set(dict.keys(ci.methods))):
            d = ci.node.decorator_list[0]
            dn = ast.unparse(d.func if isinstance(d, ast.Call) else d).split(".")[-1]
            if dn == "dataclass" and (not isinstance(d, ast.Call) or all(k.arg in ("eq", "repr", "order") for k in d.keywords)):
                return "dataobject"
        return None

    def _construct(self, cv: Value, args, kwargs, node: ast.Call, st: State, out: Outcome):
        """Instances of the repository's small value classes are modelled, not left as opaque call results:
        NamedTuple(...) is a record whose fields are the arguments; a private holder class is an object whose __init__ is
        executed (its attribute stores go to the heap), so that replacing a few locals by such an object - or back - does
        not change what a path rule sees."""
        try:
            ci = self.p.cls(cv[1])
        except Exception:
            return None
        kind = self._class_kind(ci)
        if kind is None or any(a[0] == "star" for a in args) or any(k == "**" for k, _ in kwargs):
            return None
        if kind == "record":
            fields = list(ci.ann.keys())
            if not fields or len(args) > len(fields):
                return None
            vals: Dict[str, Value] = {}
            for n_, a in zip(fields, args):
                vals[n_] = a
            for k, v in kwargs:
                if k not in fields or k in vals:
                    return None
                vals[k] = v
            for n_ in fields:
                if n_ not in vals:
                    d = ci.attrs.get(n_)
                    if d is None:
                        return None
                    dv, _ = self.eval(d, State({}, frozenset(), None))
                    vals[n_] = dv[0][0]
            return [(("record", ci.fq, tuple((n_, vals[n_]) for n_ in fields)), st)]
        obj = ("obj", ci.fq, self.tag(node))
        if kind == "dataobject":
            fields = [n_ for n_, a_ in ci.ann.items() if "ClassVar" not in ast.unparse(a_)] if all(isinstance(a_, ast.AST) for a_ in ci.ann.values()) else list(ci.ann.keys())
            if not fields or len(args) > len(fields):
                return None
            vals = {}
            for n_, a in zip(fields, args):
                vals[n_] = a
            for k, v in kwargs:
                if k not in fields or k in vals:
                    return None
                vals[k] = v
            st_ = st
            for n_ in fields:
                if n_ not in vals:
                    d = ci.attrs.get(n_)
                    if d is None:
                        return None
                    if isinstance(d, ast.Call) and ast.unparse(d.func).split(".")[-1] == "field":
                        kw_ = {k.arg: k.value for k in d.keywords}
                        if d.args or set(kw_) - {"default", "default_factory", "repr", "compare", "hash"}:
                            return None
                        if "default" in kw_:
                            d = kw_["default"]
                        elif "default_factory" in kw_:
                            d = ast.copy_location(ast.Call(func=kw_["default_factory"], args=[], keywords=[]), d)
                            ast.fix_missing_locations(d)
                        else:
                            return None
                    dvs, _ = self.eval(d, State({}, frozenset(), st.cs))
                    if len(dvs) != 1:
                        return None
                    vals[n_] = dvs[0][0]
                st_ = st_.set(("H", ("attr", obj, n_)), vals[n_])
            return [(obj, st_)]
        init = self.p.find_method(ci, "__init__")
        if init is None:
            return [(obj, st)] if not args and not kwargs else None
        if len(self.frames) > self.client.max_inline_depth + 1:
            return None
        gv = ("gen", init.fq, tuple(args), tuple(kwargs), obj, ())
        res = []
        for _v, s2 in self.inline_call(init, gv, st, out, node):
            res.append((obj, s2))
        return res

    def _record_method(self, rec: Value, name: str, args, kwargs) -> Optional[Value]:
        if name == "_replace" and not args and all(k in dict(rec[2]) for k, _ in kwargs):
            upd = dict(kwargs)
            return ("record", rec[1], tuple((n_, upd.get(n_, y)) for n_, y in rec[2]))
        if name == "_asdict" and not args and not kwargs:
            return ("dict", tuple((const(n_), y) for n_, y in rec[2]))
        return None

    def inline_call(self, fi: FuncInfo, gv: Value, st: State, out: Outcome, node: ast.AST):
        _, fq, args, kwargs, recv, captured = gv
        if any(fr.fn is fi for fr in self.frames):
            raise Undecided(f"recursion through {fi.fq}")
        no = self.frame.no + 1
        self_cls = self.frame.self_cls if (fi.cls is not None and self.frame.self_cls is not None and fi.cls in self.p.mro(self.frame.self_cls)) else fi.cls
        env = dict(st.env)
        params = fi.node.args
        pos = [a.arg for a in params.posonlyargs + params.args]
        defaults = list(params.defaults)
        dmap: Dict[str, ast.expr] = {}
        for nm, d in zip(pos[len(pos) - len(defaults):], defaults):
            dmap[nm] = d
        for a, d in zip(params.kwonlyargs, params.kw_defaults):
            if d is not None:
                dmap[a.arg] = d
        bound: Dict[str, Value] = {}
        arglist = list(args)
        is_method = fi.cls is not None and fi.parent is None and "staticmethod" not in fi.decorators
        if is_method and "classmethod" in fi.decorators and (recv is None or recv == ("param", "self")):
            own_ = self.frame.self_cls if (self.frame.self_cls is not None and fi.cls in self.p.mro(self.frame.self_cls)) else fi.cls
            recv = ("cls", own_.fq) if recv is None else ("attr", recv, "__class__")
        if is_method and recv is not None:
            arglist = [recv] + arglist
        elif is_method and recv is None:
            arglist = [("param", "self")] + arglist
        # f(a, b, *rest, **extra) handed to a function whose own *args / **kwargs parameter takes exactly that: pass-through
        star_through = None
        if arglist and arglist[-1][0] == "star" and params.vararg and len(arglist) - 1 == len(pos) and not any(a[0] == "star" for a in arglist[:-1]):
            star_through = arglist[-1][1]
            arglist = arglist[:-1]
        kw_through = None
        if params.kwarg and sum(1 for k, _ in kwargs if k == "**") == 1 and kwargs and kwargs[-1][0] == "**":
            kw_through = kwargs[-1][1]
            kwargs = tuple(kwargs[:-1])
        if any(a[0] == "star" for a in arglist) or any(k == "**" for k, _ in kwargs):
            raise Undecided(f"star-args in inlined call to {fi.fq}")
        for nm, v in zip(pos, arglist):
            bound[nm] = v
        if star_through is not None:
            bound[params.vararg.arg] = star_through
        if len(arglist) > len(pos):
            if params.vararg:
                bound[params.vararg.arg] = ("tuple", tuple(arglist[len(pos):]))
            else:
                raise Undecided(f"too many positional args in call to {fi.fq}")
        for k, v in kwargs:
            bound[k] = v
        self.frames.append(Frame(fi, self_cls, no))
        try:
            for nm in [a.arg for a in params.posonlyargs + params.args + params.kwonlyargs]:
                if nm in bound:
                    env[("L", no, nm)] = bound[nm]
                elif nm in dmap:
                    dv, _ = self.eval(dmap[nm], State({}, frozenset(), None))
                    env[("L", no, nm)] = dv[0][0]
                else:
                    env[("L", no, nm)] = ("top", f"{fi.name}.{nm}")
            if params.vararg:
                env[("L", no, params.vararg.arg)] = bound.get(params.vararg.arg, ("tuple", ()))
            if params.kwarg:
                # **kwargs collects, in call order, the keyword arguments that name no parameter
                named = {a.arg for a in params.posonlyargs + params.args + params.kwonlyargs}
                extra_ = tuple((("const", k), v) for k, v in kwargs if k not in named)
                env[("L", no, params.kwarg.arg)] = kw_through if (kw_through is not None and not extra_) else (("dict", extra_) if kw_through is None else ("dict", extra_ + ((None, kw_through),)))
            for nm, v in captured:
                if ("L", no, nm) not in env:
                    env[("L", no, nm)] = v
            if fi.parent is not None:
                # late binding: a free variable that the enclosing function bound only AFTER the nested `def` (push_future = ... below
                # `def stop_relay`) is looked up when the closure runs - in the enclosing frame, if that frame is still executing
                fr_ = next((f_ for f_ in reversed(self.frames[:-1]) if f_.fn is fi.parent), None)
                if fr_ is not None:
                    try:
                        free_ = _free_names(fi.node)
                    except Exception:
                        free_ = set()
                    for nm in free_:
                        if ("L", no, nm) not in env and ("L", fr_.no, nm) in st.env:
                            env[("L", no, nm)] = st.env[("L", fr_.no, nm)]
            s0 = State(env, st.facts, st.cs)
            s0 = self.client.on_enter(self, fi, s0)
            self.inlined.append(fi.fq)
            o = self.exec_block(fi.node.body, [s0])
            if o.brk or o.cont:
                raise Undecided("break/continue escaping a function")
            rets = list(o.ret) + [(NONE, s) for s in o.next]
            clean = lambda s: self.client.on_leave(self, fi, s.drop(lambda k, n=no: isinstance(k, tuple) and len(k) >= 2 and k[0] in ("L", "X") and k[1] == n))  # noqa: E731
            res = []
            for v, s in dedup_pairs(rets):
                res.append((v, clean(s)))
            for ex, s in dedup_pairs(o.exc):
                out.exc.append((ex, clean(s)))
            return res
        finally:
            self.frames.pop()


# ---------------------------------------------------------------- AST helpers
def _kname(k: Any) -> str:
    if isinstance(k, tuple) and k and k[0] == "L":
        return f"{k[2]}@{k[1]}"
    if isinstance(k, tuple) and k and k[0] == "C":
        return f"cell:{k[1]}"
    if isinstance(k, tuple) and k and k[0] == "H":
        return "heap:" + show(k[1])
    return str(k)


def _depth(v: Any, d: int = 0) -> int:
    if not isinstance(v, tuple) or d > 14:
        return d
    m = d
    for x in v:
        if isinstance(x, tuple):
            m = max(m, _depth(x, d + 1))
    return m


def _as_load(t: ast.expr) -> ast.expr:
    import copy

    n = copy.copy(t)
    n.ctx = ast.Load()  # type: ignore[attr-defined]
    return n


def _assigned_names(fn_node: ast.AST) -> Set[str]:
    out: Set[str] = set()
    for n in walk_shallow(fn_node):
        if isinstance(n, ast.Name) and isinstance(n.ctx, (ast.Store, ast.Del)):
            out.add(n.id)
        elif isinstance(n, (ast.FunctionDef, ast.AsyncFunctionDef, ast.ClassDef)):
            out.add(n.name)
        elif isinstance(n, ast.ExceptHandler) and n.name:
            out.add(n.name)
    return out


def _free_names(fn_node: ast.AST) -> Set[str]:
    """Names read inside a nested def/lambda (including deeper nesting) that it does not bind."""
    bound: Set[str] = set()
    a = fn_node.args  # type: ignore[attr-defined]
    for x in a.posonlyargs + a.args + a.kwonlyargs:
        bound.add(x.arg)
    if a.vararg:
        bound.add(a.vararg.arg)
    if a.kwarg:
        bound.add(a.kwarg.arg)
    nonlocals: Set[str] = set()
    loads: Set[str] = set()
    body = fn_node.body if isinstance(fn_node.body, list) else [fn_node.body]  # type: ignore[attr-defined]
    for st in body:
        for n in ast.walk(st):
            if isinstance(n, ast.Name):
                if isinstance(n.ctx, ast.Load):
                    loads.add(n.id)
                else:
                    bound.add(n.id)
            elif isinstance(n, (ast.Nonlocal, ast.Global)):
                nonlocals.update(n.names)
    bound -= nonlocals
    return loads - bound


def text_term(v: Value) -> Value:
    """Canonical form of a str built by `+`, `%` or `.format` around constant text: the same ('fstr', parts) term an f-string
    gives (constants merged), so that rules see WHAT the text is made of, not which formatting idiom wrote it. Terms that
    involve no constant str text (`a + b` of two unknowns, bytes arithmetic) are left as they are."""
    if v[0] == "binop" and v[1] == "Add":
        # x + "" and "" + x are x (the other operand of a str `+` is a str, or the statement raises)
        if v[3] == ("const", ""):
            return v[2]
        if v[2] == ("const", ""):
            return v[3]
        if not any(x[0] == "fstr" or (x[0] == "const" and isinstance(x[1], str)) for x in (v[2], v[3])):
            return v
    elif v[0] == "binop" and v[1] == "Mod":
        if not (v[2][0] == "const" and isinstance(v[2][1], str)):
            return v
    elif not (v[0] == "call" and v[1][0] == "attr" and v[1][2] == "format" and v[1][1][0] == "const" and isinstance(v[1][1][1], str)):
        return v
    parts = strparts(v)
    if parts is None:
        return v
    if any(x[0] == "const" and isinstance(x[1], bytes) for x in parts):
        return v
    if len(parts) == 1 and parts[0][0] == "const":
        return parts[0]
    if not parts:
        return ("const", "")
    return ("fstr", tuple(parts))


def split_suffix(v: Value) -> Optional[Tuple[Value, str]]:
    """(core, text) when v is `core + "text"` (constant str suffix) in any formatting idiom, else None"""
    p_ = strparts(v) if v[0] in ("fstr", "binop", "call") else None
    if p_ and len(p_) >= 2 and p_[-1][0] == "const" and isinstance(p_[-1][1], str):
        core = p_[0] if len(p_) == 2 else ("fstr", tuple(p_[:-1]))
        return core, p_[-1][1]
    return None


def split_prefix(v: Value) -> Optional[Tuple[str, Value]]:
    """(text, core) when v is `"text" + core` (constant str prefix) in any formatting idiom, else None"""
    p_ = strparts(v) if v[0] in ("fstr", "binop", "call") else None
    if p_ and len(p_) >= 2 and p_[0][0] == "const" and isinstance(p_[0][1], str):
        core = p_[1] if len(p_) == 2 else ("fstr", tuple(p_[1:]))
        return p_[0][1], core
    return None


def strparts(v: Value) -> Optional[List[Value]]:
    """A text built by f-string, `+`, `"...{}...".format(...)` or `"...%s..." % (...)` as the flat list of its pieces
    (constant strings merged, other pieces as value terms); None if `v` is not such a text. Lets a rule compare WHAT a text is
    made of without caring which formatting idiom wrote it."""
    import re as _re

    def go(x: Value) -> Optional[List[Value]]:
        if x[0] == "const" and isinstance(x[1], (str, bytes)):
            return [x]
        if x[0] == "fstr":
            out: List[Value] = []
            for part in x[1]:
                if part[0] == "fmt" and part[2] in ("", "s") and part[3] == "":
                    part = part[1]
                sub = go(part) if part[0] in ("const", "fstr") else None
                out += sub if sub is not None else [part]
            return out
        if x[0] == "binop" and x[1] == "Add":
            a, b = go(x[2]), go(x[3])
            if a is None and b is None:
                return None
            return (a if a is not None else [x[2]]) + (b if b is not None else [x[3]])
        if x[0] == "call" and x[1][0] == "attr" and x[1][2] == "format" and x[1][1][0] == "const" and isinstance(x[1][1][1], str):
            tmpl = x[1][1][1]
            import string as _string
            args = list(x[2])
            kw = {k: v_ for k, v_ in (x[3] or ()) if k != "**"}
            if any(k == "**" for k, _ in (x[3] or ())) or any(a[0] == "star" for a in args):
                return None
            out = []
            auto = 0
            try:
                fields = list(_string.Formatter().parse(tmpl))
            except ValueError:
                return None
            for lit, fname, spec, conv in fields:
                if lit:
                    out.append(("const", lit))
                if fname is None:
                    continue
                if conv not in (None, "s"):
                    return None
                m = _re.fullmatch(r"(\d*|[A-Za-z_]\w*)((?:\.[A-Za-z_]\w*|\[[^\]]+\])*)", fname)
                if not m:
                    return None
                head, tail = m.group(1), m.group(2)
                if head == "" or head.isdigit():
                    idx = int(head) if head else auto
                    if head == "":
                        auto += 1
                    if idx >= len(args):
                        return None
                    val = args[idx]
                else:
                    if head not in kw:
                        return None
                    val = kw[head]
                for acc in _re.findall(r"\.[A-Za-z_]\w*|\[[^\]]+\]", tail):
                    if acc.startswith("."):
                        val = ("attr", val, acc[1:])
                    else:
                        key = acc[1:-1]
                        val = ("sub", val, ("const", int(key) if key.isdigit() else key))
                if spec:
                    val = ("fmt", val, "", repr(spec) if False else spec)
                out.append(val)
            return out
        if x[0] == "binop" and x[1] == "Mod" and x[2][0] == "const" and isinstance(x[2][1], (str, bytes)):
            tmpl = x[2][1]
            is_b = isinstance(tmpl, bytes)
            t = tmpl.decode("latin-1") if is_b else tmpl
            args = list(x[3][1]) if x[3][0] == "tuple" else [x[3]]
            pieces = _re.split(r"(%[sd])", t)
            out = []
            i = 0
            for pc in pieces:
                if pc in ("%s", "%d"):
                    if i >= len(args):
                        return None
                    out.append(args[i])
                    i += 1
                elif pc:
                    if "%" in pc.replace("%%", ""):
                        return None
                    pc = pc.replace("%%", "%")
                    out.append(("const", pc.encode("latin-1") if is_b else pc))
            return out
        return None

    parts = go(v)
    if parts is None:
        return None
    merged: List[Value] = []
    for x in parts:
        if x[0] == "const" and isinstance(x[1], (str, bytes)) and merged and merged[-1][0] == "const" and type(merged[-1][1]) is type(x[1]):
            merged[-1] = ("const", merged[-1][1] + x[1])
        elif not (x[0] == "const" and x[1] in ("", b"")):
            merged.append(x)
    return merged
