#!/usr/bin/env python3
"""Entry point: python3 /verif/sa/check.py C<nn> [--tier quick|thorough]

Exit 0  every rule instance holds (known findings are printed as KNOWN-FINDING lines)
Exit 1  a violation that is not a listed known finding (VIOLATION line + replay file)
Exit 2  ANALYSIS-ERROR / UNDECIDED: the checker could not decide (never a silent pass)
"""
from __future__ import annotations

import argparse
import importlib
import os
import sys
import traceback

sys.path.insert(0, os.path.dirname(os.path.dirname(os.path.abspath(__file__))))

from sa.loader import AnalysisError, load_program  # noqa: E402
from sa.report import Report, Undecided  # noqa: E402

LEVELS = {"C11": "model_checking"}


def thorough_extras(prop: str, rep: Report) -> None:
    """Thorough tier: additionally exercise the checker itself on scratch copies of the CURRENT tree - its self-test
    variants (breaking / behaviour-preserving / repaired) and the kept seeded changes of this property. The outcome is
    recorded in the evidence; it never changes the verdict about /repo (a variant whose anchor text is gone is STALE)."""
    import json
    import subprocess
    import tempfile

    verif = os.path.dirname(os.path.dirname(os.path.abspath(__file__)))
    if os.environ.get("BAIZE_VERIF_NO_EXTRAS"):
        return
    env = dict(os.environ, BAIZE_VERIF_NO_EXTRAS="1")
    with tempfile.TemporaryDirectory(prefix="baize_thorough_") as td:
        j1 = os.path.join(td, "selftest.json")
        r1 = subprocess.run([sys.executable, os.path.join(verif, "selftest", "run.py"), "--prop", prop, "--json", j1], capture_output=True, text=True, env=env)
        try:
            rep.extra["selftest"] = json.load(open(j1))["counts"]
        except Exception:
            rep.extra["selftest"] = {"error": (r1.stdout + r1.stderr)[-300:]}
        j2 = os.path.join(td, "seeded.json")
        r2 = subprocess.run([sys.executable, os.path.join(verif, "selftest", "seeded.py"), "--id", prop + "-", "--json", j2], capture_output=True, text=True, env=env)
        try:
            res = json.load(open(j2))
            rep.extra["seeded"] = {o["id"]: o["status"] for o in res}
        except Exception:
            rep.extra["seeded"] = {"error": (r2.stdout + r2.stderr)[-300:]}
        # whole-tree behaviour-preserving transformations and the kept refactorings of the sub-agents: this check must stay silent
        r3 = subprocess.run([sys.executable, os.path.join(verif, "selftest", "rename_locals.py"), "--mode", "all", "--check", prop], capture_output=True, text=True, env=env)
        rep.extra["transformed_tree_silent"] = (r3.returncode == 0)
        j4 = os.path.join(td, "refac.json")
        r4 = subprocess.run([sys.executable, os.path.join(verif, "selftest", "refactorings.py"), "--check", prop, "--json", j4], capture_output=True, text=True, env=env)
        try:
            res4 = json.load(open(j4))
            rep.extra["refactorings"] = {"kept": len(res4), "non_silent": sorted(k for k, v in res4.items() if v)}
        except Exception:
            rep.extra["refactorings"] = {"error": (r4.stdout + r4.stderr)[-300:]}
    st = rep.extra.get("selftest", {})
    if isinstance(st, dict) and st.get("FAIL"):
        print(f"SELFTEST-WARN property={prop} {st} (checker self-test variants disagree on this tree; informational)")


def resolver_precondition(program, rep: Report) -> None:
    """Every check resolves `self.m(...)` to the method `m` of the class hierarchy. A store that rebinds a method name on
    the instance or the class breaks that resolution, so a check that analysed the shadowed method is no longer entitled to
    a verdict: it fails closed (UNDECIDED) unless one of its own rules already reported the store as a violation."""
    from sa.common import controls_fire, method_rebinds, where

    dead = controls_fire()
    if dead:
        rep.undecide("engine", f"positive control: detector(s) {dead} no longer fire on sa/fixtures/controls")
    for site_fn, node, c, attr, m, is_cache in method_rebinds(program):
        if m.fq in rep.functions or site_fn.fq in rep.functions:
            rep.undecide("engine", f"{where(site_fn, node)}: `{attr}` of {c.fq} is rebound ({' '.join(__import__('ast').unparse(node).split())[:80]}): "
                                   f"calls resolved to {m.fq} may reach another callable")


def descriptor_precondition(program, rep: Report) -> None:
    """The engine models `self.x` as a plain attribute cell. A class attribute that is an instance of a repository class defining
    `__set__` / `__delete__` (a DATA descriptor) makes every read and write of `self.x` run that class's code instead, which
    the path analyses do not see. A check that analysed methods of such a class is not entitled to a verdict about them: its
    violations in those methods are withdrawn and the check fails closed (UNDECIDED). (cached_property is a non-data descriptor
    that the checks know; there is no data descriptor on the pinned tree.)"""
    import ast as _ast

    from sa.loader import ClassInfo

    desc_classes = {}
    for m in program.modules.values():
        for c in m.classes.values():
            if any(n in dict.keys(c.methods) for n in ("__set__", "__delete__")):
                desc_classes[c.name] = c
    if not desc_classes:
        return
    hit = []
    for m in program.modules.values():
        for c in m.classes.values():
            for an, ex in c.attrs.items():
                if isinstance(ex, _ast.Call) and isinstance(ex.func, (_ast.Name, _ast.Attribute)) and _ast.unparse(ex.func).split(".")[-1] in desc_classes:
                    family = [c] + program.subclasses(c)
                    fqs = {f.fq for k in family for f in dict.values(k.methods)} | {f.fq for k in family for f in dict.values(k.methods) for f in f.nested.values()}
                    if fqs & set(rep.functions):
                        hit.append((c, an, _ast.unparse(ex.func).split(".")[-1], fqs))
    for c, an, dn, fqs in hit:
        withdrawn = [v for v in rep.violations if any(v.construct.startswith(fq + " ::") or v.construct.startswith(fq + ".") for fq in fqs)]
        for v in withdrawn:
            rep.violations.remove(v)
        rep.undecide("engine", f"{c.fq}.{an} is a data descriptor ({dn} defines __set__/__delete__): reads and writes of self.{an} run code the path analyses do not model"
                     + (f"; {len(withdrawn)} finding(s) in methods of {c.name} withdrawn" if withdrawn else ""))


def restructure_precondition(program, rep: Report) -> None:
    """A finding of the kind "X is not done / is missing / never happens" in a function whose call structure differs from the
    confirmed baseline (sa/callshape.py: it calls repository-defined names it did not call on the pinned tree, or it is a new
    function) is demoted to UNDECIDED: the rule was confirmed against the pinned call structure, and what it misses may be done by
    the new callee in a form it does not read. Findings that positively identify a wrong construct are kept.
    BAIZE_STRICT_ABSENCE=1 switches the demotion off."""
    if os.environ.get("BAIZE_STRICT_ABSENCE") == "1" or not rep.violations:
        return
    from sa import callshape

    try:
        base = callshape.load_baseline()
    except Exception as e:  # a missing baseline must not turn findings into silence
        rep.undecide("engine", f"call-structure baseline unreadable: {e}")
        return
    cur = callshape.shape_of(program)
    keep = []
    from sa.report import load_known, match_known
    known = load_known(rep.prop)
    for v in rep.violations:
        if match_known(known, v) is not None or v.detail.get("positive"):
            keep.append(v)  # a listed finding stays what it is; so does one the rule marks as naming a wrong construct (positive=True)
            continue
        owner = v.construct.split(" :: ")[0].split(" [entry")[0].strip()
        owners = [owner.replace(".*.", f".{side}.") for side in ("wsgi", "asgi")] + [owner.replace(".*.", ".")] if ".*." in owner else owner.split("|") if "|" in owner and ":" in owner else [owner]
        owners += [o_.replace(":parse_stream", ":parse_async_stream") for o_ in owners if o_.endswith(":parse_stream")]
        if "|" in owner and ":" in owner:
            mod_, quals = owner.split(":", 1)
            owners = [f"{mod_}:{q}" for q in quals.split("|")]
        cands = []
        for o in owners:
            cands.append(o)
            while "." in o.split(":", 1)[-1]:
                o = o.rsplit(".", 1)[0]
                cands.append(o)  # enclosing function / class-level owner of a nested function
        new = []
        from sa.common import with_helpers as _wh
        for o in cands:
            if o in cur:
                new += [f"{o.split(':', 1)[-1]} -> {n}" for n in callshape.restructured(program, o, base, cur)]
                # the private helpers the owner reaches are part of it (a finding in a single-caller helper is named after its caller)
                try:
                    fo = program.func(o)
                    for h_ in _wh(program, fo)[1:]:
                        if h_.fq in cur:
                            new += [f"{h_.qualname} -> {n}" for n in callshape.restructured(program, h_.fq, base, cur)]
                except Exception:
                    pass
        if new and callshape.is_absence_finding(v.message):
            rep.undecide(v.rule, f"[demoted: call structure differs from the confirmed baseline ({'; '.join(sorted(set(new))[:4])})] {v.where}: {v.message[:160]}")
        else:
            keep.append(v)
    rep.violations[:] = keep


def main(argv=None) -> int:
    ap = argparse.ArgumentParser()
    ap.add_argument("prop")
    ap.add_argument("--tier", default=os.environ.get("VERIF_TIER") or "quick", choices=["quick", "thorough"])
    ap.add_argument("--repo", default=None)
    args = ap.parse_args(argv)
    if args.repo:
        os.environ["BAIZE_REPO"] = args.repo
    prop = args.prop.upper()
    rep = Report(prop, args.tier, LEVELS.get(prop, "other"))
    try:
        mod = importlib.import_module(f"sa.props.{prop.lower()}")
        program = load_program()
        from sa import common as _common
        _common.PROGRAM = program
        if args.tier == "thorough":
            # deeper bounds for the path-sensitive engine
            from sa import flow

            flow.Interp.STEP_LIMIT = 4000000
            flow.Client.max_inline_depth = max(flow.Client.max_inline_depth, 6)
        mod.run(program, rep, args.tier)
        resolver_precondition(program, rep)
        descriptor_precondition(program, rep)
        restructure_precondition(program, rep)
        if args.tier == "thorough":
            if hasattr(mod, "run_thorough"):
                mod.run_thorough(program, rep)
            thorough_extras(prop, rep)
    except (AnalysisError, Undecided) as e:
        print(f"ANALYSIS-ERROR property={prop} {e}")
        rep.undecide("engine", str(e))
        try:  # findings made before the analysis gave up are subject to the same preconditions
            descriptor_precondition(program, rep)
            restructure_precondition(program, rep)
        except Exception:
            pass
        return 1 if rep.finish() == 1 else 2
    except Exception:
        traceback.print_exc()
        print(f"ANALYSIS-ERROR property={prop} internal error in the checker (traceback above)")
        try:
            rep.undecide("engine", "internal error")
            rep.finish()
        except Exception:
            pass
        return 2
    code = rep.finish()
    if code == 0:
        print(
            f"OK property={prop} tier={args.tier} obligations={rep.obligations} discharged={rep.discharged} "
            f"functions={len(rep.functions)} rules={len(rep.rule_instances)}"
        )
    return code


if __name__ == "__main__":
    sys.exit(main())
