#!/usr/bin/env python3
"""Entry point: python3 /verif/sa/check.py C<nn> [--tier quick|thorough]

Exit 0  every rule instance holds (known findings are printed as KNOWN-FINDING lines)
Exit 1  a violation that is not a listed known finding (VIOLATION line + replay file)
Exit 2  ANALYSIS-ERROR / UNDECIDED: the checker could not decide (never a silent pass)
"""
from __future__ import annotations

import argparse
import importlib
import os
import sys
import traceback

sys.path.insert(0, os.path.dirname(os.path.dirname(os.path.abspath(__file__))))

from sa.loader import AnalysisError, load_program  # noqa: E402
from sa.report import Report, Undecided  # noqa: E402

LEVELS = {"C11": "model_checking"}


def main(argv=None) -> int:
    ap = argparse.ArgumentParser()
    ap.add_argument("prop")
    ap.add_argument("--tier", default=os.environ.get("VERIF_TIER") or "quick", choices=["quick", "thorough"])
    ap.add_argument("--repo", default=None)
    args = ap.parse_args(argv)
    if args.repo:
        os.environ["BAIZE_REPO"] = args.repo
    prop = args.prop.upper()
    rep = Report(prop, args.tier, LEVELS.get(prop, "other"))
    try:
        mod = importlib.import_module(f"sa.props.{prop.lower()}")
        program = load_program()
        mod.run(program, rep, args.tier)
        if args.tier == "thorough" and hasattr(mod, "run_thorough"):
            mod.run_thorough(program, rep)
    except (AnalysisError, Undecided) as e:
        print(f"ANALYSIS-ERROR property={prop} {e}")
        rep.undecide("engine", str(e))
        return 1 if rep.finish() == 1 else 2
    except Exception:
        traceback.print_exc()
        print(f"ANALYSIS-ERROR property={prop} internal error in the checker (traceback above)")
        try:
            rep.undecide("engine", "internal error")
            rep.finish()
        except Exception:
            pass
        return 2
    code = rep.finish()
    if code == 0:
        print(
            f"OK property={prop} tier={args.tier} obligations={rep.obligations} discharged={rep.discharged} "
            f"functions={len(rep.functions)} rules={len(rep.rule_instances)}"
        )
    return code


if __name__ == "__main__":
    sys.exit(main())
